----------------------------- MODULE MC_Physics -----------------------------
(***************************************************************************)
(* Model check of the geometry library Physics.tla itself: the oracle of   *)
(* C02 / C15 is only trustworthy if its classification is consistent.      *)
(* TLC walks "scenes" (a family of sanity property, bodies, a rotation)    *)
(* and, below every scene, every point of the half-lattice box Cube(N);    *)
(* the invariants are evaluated in every state:                            *)
(*   rot    Classify / Surface / Sets / Singular are invariant when body   *)
(*          and point are rotated together (24 cube rotations; the 8 that  *)
(*          keep the z axis for Cylinder, CylinderSegment, Circle)         *)
(*   same   two representations of one body classify every point alike     *)
(*          (Cuboid = 12-triangle box mesh, convex and axial method;       *)
(*          Tetrahedron = its mesh; Cylinder = full CylinderSegment;       *)
(*          union of lattice cells from its faces = from its cells)        *)
(*   part   exact partitions: a point "in" a part is "in" the whole; it is *)
(*          "out" of the whole iff it is "out" of every part; interior     *)
(*          points of the whole are never "out" of all closed parts        *)
(*   count  the number of "in" points and of closure points of a cuboid    *)
(*          are the products expected from its dimensions, and the         *)
(*          boundary is closure minus interior                             *)
(*   cover  the bodies used for the C15 scan reach every special set of    *)
(*          their class; singular points are exactly vertices / position   *)
(***************************************************************************)
EXTENDS Physics
CONSTANTS N,           \* half-size of the scanned half-lattice box (doubled coordinates)
          MeshRotN     \* number of rotations applied to the (expensive) TriangularMesh bodies: generators first
VARIABLES sc, pt       \* scene index, point (<<>> = the scene state itself)
vars == <<sc, pt>>

RECURSIVE SetToSeq(_)
SetToSeq(S) == IF S = {} THEN <<>> ELSE LET x == CHOOSE y \in S : TRUE IN <<x>> \o SetToSeq(S \ {x})
Rx90 == <<<<1, 0, 0>>, <<0, 0, -1>>, <<0, 1, 0>>>>
Rz90 == <<<<0, -1, 0>>, <<1, 0, 0>>, <<0, 0, 1>>>>
Cyc == <<<<0, 0, 1>>, <<1, 0, 0>>, <<0, 1, 0>>>>          \* 120 degrees about the space diagonal
RotSeq == <<Rx90, Rz90, Cyc>> \o SetToSeq(Rots \ {Rx90, Rz90, Cyc})
ZRots == {m \in Rots : m[3][3] # 0}
ZRotSeq == SetToSeq(ZRots)

\* ---- mesh construction from lattice cells (doubled coordinates, cell edge s)
Quad(a, b, c, d) == {<<a, b, c>>, <<a, c, d>>}
CellQuad(c, s, d) ==      \* the face of the cell [c, c+s]^3 with outward normal d, counter-clockwise seen from outside
  LET l == c h == <<c[1] + s, c[2] + s, c[3] + s>> IN
  CASE d = <<1, 0, 0>> -> Quad(<<h[1], l[2], l[3]>>, <<h[1], h[2], l[3]>>, <<h[1], h[2], h[3]>>, <<h[1], l[2], h[3]>>)
    [] d = <<-1, 0, 0>> -> Quad(<<l[1], l[2], l[3]>>, <<l[1], l[2], h[3]>>, <<l[1], h[2], h[3]>>, <<l[1], h[2], l[3]>>)
    [] d = <<0, 1, 0>> -> Quad(<<l[1], h[2], l[3]>>, <<l[1], h[2], h[3]>>, <<h[1], h[2], h[3]>>, <<h[1], h[2], l[3]>>)
    [] d = <<0, -1, 0>> -> Quad(<<l[1], l[2], l[3]>>, <<h[1], l[2], l[3]>>, <<h[1], l[2], h[3]>>, <<l[1], l[2], h[3]>>)
    [] d = <<0, 0, 1>> -> Quad(<<l[1], l[2], h[3]>>, <<h[1], l[2], h[3]>>, <<h[1], h[2], h[3]>>, <<l[1], h[2], h[3]>>)
    [] d = <<0, 0, -1>> -> Quad(<<l[1], l[2], l[3]>>, <<l[1], h[2], l[3]>>, <<h[1], h[2], l[3]>>, <<h[1], l[2], l[3]>>)
Dirs6 == {<<1, 0, 0>>, <<-1, 0, 0>>, <<0, 1, 0>>, <<0, -1, 0>>, <<0, 0, 1>>, <<0, 0, -1>>}
CellMesh(cells, s) == SetToSeq(UNION {CellQuad(c, s, d) : <<c, d>> \in {<<c, d>> \in cells \X Dirs6 : Add3(c, Scl3(s, d)) \notin cells}})
\* box mesh of a centred cuboid with even dim2: one "cell" with anisotropic edges, built from the 12 triangles
BoxMesh(dim2) ==
  LET h == <<dim2[1] \div 2, dim2[2] \div 2, dim2[3] \div 2>> l == Neg3(h) IN
  SetToSeq(Quad(<<h[1], l[2], l[3]>>, <<h[1], h[2], l[3]>>, <<h[1], h[2], h[3]>>, <<h[1], l[2], h[3]>>)
      \cup Quad(<<l[1], l[2], l[3]>>, <<l[1], l[2], h[3]>>, <<l[1], h[2], h[3]>>, <<l[1], h[2], l[3]>>)
      \cup Quad(<<l[1], h[2], l[3]>>, <<l[1], h[2], h[3]>>, <<h[1], h[2], h[3]>>, <<h[1], h[2], l[3]>>)
      \cup Quad(<<l[1], l[2], l[3]>>, <<h[1], l[2], l[3]>>, <<h[1], l[2], h[3]>>, <<l[1], l[2], h[3]>>)
      \cup Quad(<<l[1], l[2], h[3]>>, <<h[1], l[2], h[3]>>, <<h[1], h[2], h[3]>>, <<l[1], h[2], h[3]>>)
      \cup Quad(<<l[1], l[2], l[3]>>, <<l[1], h[2], l[3]>>, <<h[1], h[2], l[3]>>, <<h[1], l[2], l[3]>>))
TetraMesh(v) == IF TetraVol6(v) > 0
                THEN <<<<v[1], v[3], v[2]>>, <<v[1], v[2], v[4]>>, <<v[2], v[3], v[4]>>, <<v[1], v[4], v[3]>>>>
                ELSE <<<<v[1], v[2], v[3]>>, <<v[1], v[4], v[2]>>, <<v[2], v[4], v[3]>>, <<v[1], v[3], v[4]>>>>
Octa(r) == <<<<<<r, 0, 0>>, <<0, r, 0>>, <<0, 0, r>>>>, <<<<0, r, 0>>, <<-r, 0, 0>>, <<0, 0, r>>>>,
             <<<<-r, 0, 0>>, <<0, -r, 0>>, <<0, 0, r>>>>, <<<<0, -r, 0>>, <<r, 0, 0>>, <<0, 0, r>>>>,
             <<<<0, r, 0>>, <<r, 0, 0>>, <<0, 0, -r>>>>, <<<<-r, 0, 0>>, <<0, r, 0>>, <<0, 0, -r>>>>,
             <<<<0, -r, 0>>, <<-r, 0, 0>>, <<0, 0, -r>>>>, <<<<r, 0, 0>>, <<0, -r, 0>>, <<0, 0, -r>>>>>>

\* ---- bodies
Cub(a, b, c) == [cls |-> "Cuboid", dim2 |-> <<a, b, c>>]
Cyl(d, h) == [cls |-> "Cylinder", d2 |-> d, h2 |-> h]
Sph(d) == [cls |-> "Sphere", d2 |-> d]
Seg(r1, r2, h, p1, p2) == [cls |-> "CylinderSegment", r12 |-> r1, r22 |-> r2, h2 |-> h, p1 |-> p1, p2 |-> p2]
Tet(v) == [cls |-> "Tetrahedron", v2 |-> v]
Mesh(f, mk) == Prep([cls |-> "TriangularMesh", f2 |-> f, mk |-> mk])
Tri(v) == [cls |-> "Triangle", v2 |-> v]
Circ(d) == [cls |-> "Circle", d2 |-> d]
Poly(v) == [cls |-> "Polyline", v2 |-> v]
Dip == [cls |-> "Dipole"]
T1 == <<<<0, 0, 0>>, <<4, 0, 0>>, <<0, 4, 0>>, <<0, 0, 4>>>>
T2 == <<<<2, 0, 0>>, <<0, 4, 0>>, <<-2, -2, 0>>, <<0, 0, 6>>>>
LCells == {<<0, 0, 0>>, <<2, 0, 0>>, <<0, 2, 0>>}
LMesh == CellMesh(LCells, 2)
UMesh == CellMesh({<<-3, -1, -1>>, <<-1, -1, -1>>, <<1, -1, -1>>, <<-3, 1, -1>>, <<1, 1, -1>>}, 2)   \* U shape (non-convex, re-entrant edges)

RotBodies == <<Cub(4, 4, 8), Cub(2, 6, 3), Sph(4), Sph(10), Tet(T1), Tet(T2),
               Tri(<<<<0, 0, 0>>, <<4, 0, 0>>, <<0, 4, 0>>>>), Poly(<<<<-2, 0, 0>>, <<2, 0, 0>>, <<2, 2, 0>>, <<2, 2, 0>>, <<2, 2, 4>>>>), Dip>>
MeshBodies == <<Mesh(BoxMesh(<<4, 2, 6>>), "convex"), Mesh(BoxMesh(<<4, 2, 6>>), "axial"), Mesh(LMesh, "axial"), Mesh(UMesh, "axial"),
                Mesh(Octa(4), "convex"), Mesh(TetraMesh(T2), "convex")>>
ZBodies == <<Cyl(4, 4), Cyl(5, 3), Cyl(10, 4), Seg(2, 4, 4, 0, 2), Seg(0, 4, 4, -1, 3), Seg(2, 5, 6, 2, 8), Seg(1, 3, 2, -4, -1),
             Seg(2, 4, 4, 1, 7), Seg(2, 4, 2, 0, 8), Seg(0, 4, 2, 0, 8), Circ(4), Circ(10)>>

\* body and rotation transformed together
\* (a function constructor is evaluated lazily at every application by TLC; "\o <<>>" forces it into a tuple once)
RotV(R, vs) == [i \in DOMAIN vs |-> MulMV(R, vs[i])] \o <<>>
DirIndex(v) == CHOOSE k \in 0..7 : Dir(k) = v
RotBody(b, R) ==
  CASE b.cls = "Cuboid" -> [b EXCEPT !.dim2 = <<Abs(Dot3(R[1], b.dim2)), Abs(Dot3(R[2], b.dim2)), Abs(Dot3(R[3], b.dim2))>>]
    [] b.cls \in {"Tetrahedron", "Triangle", "Polyline"} -> [b EXCEPT !.v2 = RotV(R, b.v2)]
    [] b.cls = "TriangularMesh" -> Mesh([i \in DOMAIN b.f2 |-> RotV(R, b.f2[i])] \o <<>>, b.mk)
    [] b.cls = "CylinderSegment" ->
         LET k0 == DirIndex(<<R[1][1], R[2][1]>>)                       \* image of the direction 0
             proper == R[1][1] * R[2][2] - R[1][2] * R[2][1] = 1          \* action on the xy plane is a rotation
         IN IF proper THEN [b EXCEPT !.p1 = b.p1 + k0, !.p2 = b.p2 + k0] ELSE [b EXCEPT !.p1 = k0 - b.p2, !.p2 = k0 - b.p1]
    [] OTHER -> b

\* ---- scenes
RotScene(b, R) == [fam |-> "rot", b |-> b, R |-> R, rb |-> RotBody(b, R)]
RotScenes == [k \in 1..(Len(RotBodies) * 24) |-> RotScene(RotBodies[((k - 1) \div 24) + 1], RotSeq[((k - 1) % 24) + 1])]
MeshScenes == [k \in 1..(Len(MeshBodies) * MeshRotN) |-> RotScene(MeshBodies[((k - 1) \div MeshRotN) + 1], RotSeq[((k - 1) % MeshRotN) + 1])]
ZScenes == [k \in 1..(Len(ZBodies) * 8) |-> RotScene(ZBodies[((k - 1) \div 8) + 1], ZRotSeq[((k - 1) % 8) + 1])]
Same(a, b) == [fam |-> "same", a |-> a, b |-> b]
SameScenes == <<Same(Cub(4, 2, 6), Mesh(BoxMesh(<<4, 2, 6>>), "convex")), Same(Cub(4, 2, 6), Mesh(BoxMesh(<<4, 2, 6>>), "axial")),
                Same(Cub(2, 2, 2), Mesh(CellMesh({<<-1, -1, -1>>}, 2), "axial")),
                Same(Tet(T1), Mesh(TetraMesh(T1), "convex")), Same(Tet(T2), Mesh(TetraMesh(T2), "convex")),
                Same(Cyl(8, 4), Seg(0, 4, 4, 0, 8)), Same(Cyl(10, 6), Seg(0, 5, 6, -3, 5)),
                Same(Mesh(Octa(4), "convex"), Mesh(Octa(4), "convex"))>>
\* parts: sequences of [b, off] (translated by off, doubled)
Part(b, off) == [b |-> b, off |-> off]
Parts(whole, parts) == [fam |-> "part", b |-> whole, parts |-> parts]
PartScenes == <<Parts(Cub(4, 4, 8), <<Part(Cub(2, 4, 8), <<-1, 0, 0>>), Part(Cub(2, 4, 8), <<1, 0, 0>>)>>),
                Parts(Cub(4, 4, 8), <<Part(Cub(4, 4, 2), <<0, 0, -3>>), Part(Cub(4, 4, 6), <<0, 0, 1>>)>>),
                Parts(Cyl(8, 4), <<Part(Seg(0, 4, 4, 0, 2), Zero3), Part(Seg(0, 4, 4, 2, 4), Zero3), Part(Seg(0, 4, 4, 4, 6), Zero3), Part(Seg(0, 4, 4, 6, 8), Zero3)>>),
                Parts(Seg(0, 4, 4, -1, 3), <<Part(Seg(0, 2, 4, -1, 3), Zero3), Part(Seg(2, 4, 4, -1, 1), Zero3), Part(Seg(2, 4, 4, 1, 3), Zero3)>>),
                Parts(Seg(2, 4, 4, 0, 8), <<Part(Seg(2, 4, 2, 0, 5), <<0, 0, -1>>), Part(Seg(2, 4, 2, 5, 8), <<0, 0, -1>>), Part(Seg(2, 4, 2, 0, 8), <<0, 0, 1>>)>>),
                Parts(Mesh(LMesh, "axial"), <<Part(Cub(2, 2, 2), <<1, 1, 1>>), Part(Cub(2, 2, 2), <<3, 1, 1>>), Part(Cub(2, 2, 2), <<1, 3, 1>>)>>),
                Parts(Tet(T1), <<Part(Tet(<<<<0, 0, 0>>, <<2, 0, 0>>, <<0, 4, 0>>, <<0, 0, 4>>>>), Zero3), Part(Tet(<<<<2, 0, 0>>, <<4, 0, 0>>, <<0, 4, 0>>, <<0, 0, 4>>>>), Zero3)>>)>>
CountScenes == <<[fam |-> "count", b |-> Cub(4, 4, 8)], [fam |-> "count", b |-> Cub(2, 6, 3)], [fam |-> "count", b |-> Cub(1, 1, 1)], [fam |-> "count", b |-> Cub(5, 7, 2)]>>
\* the bodies of the C15 scan, grouped by class (harness/drivers/finite.py uses the same ones; coverage is re-checked
\* on the logged scenes).  The r/r0 = 0.05 threshold needs a large cylinder: d2 = 40 puts it on the half-lattice.
CoverGroups == <<<<Cub(4, 4, 8)>>, <<Cyl(4, 4), Cyl(40, 4)>>, <<Sph(4)>>, <<Seg(2, 4, 4, 0, 2), Seg(0, 4, 4, -1, 3)>>, <<Circ(4)>>,
                 <<Poly(<<<<-2, 0, 0>>, <<2, 0, 0>>, <<2, 2, 0>>, <<2, 2, 0>>, <<2, 2, 4>>>>)>>,
                 <<Tri(<<<<0, 0, 0>>, <<4, 0, 0>>, <<0, 4, 0>>>>)>>, <<Tet(T1)>>, <<Mesh(BoxMesh(<<4, 2, 6>>), "axial")>>, <<Dip>>>>
CoverScenes == [k \in 1..Len(CoverGroups) |-> [fam |-> "cover", bs |-> CoverGroups[k]]]
Scenes == RotScenes \o MeshScenes \o ZScenes \o SameScenes \o PartScenes \o CountScenes \o CoverScenes

Pts == Cube(N)
\* every scene is an initial state (so that the 16 workers expand scenes in parallel); its successors are its points
Init == sc \in 1..Len(Scenes) /\ pt = <<>>
Next == pt = <<>> /\ \E x \in Pts : pt' = x /\ sc' = sc
Spec == Init /\ [][Next]_vars

\* ---- invariants
\* group axioms of the rotations (evaluated once, in the initial state)
GroupInv == sc = 1 /\ pt = <<>> =>
    /\ Cardinality(Rots) = 24 /\ Cardinality(ZRots) = 8 /\ IdM \in Rots /\ Len(RotSeq) = 24 /\ SetOf(RotSeq) = Rots
    /\ \A a \in Rots : MulMM(a, Tr(a)) = IdM /\ \A b \in Rots : MulMM(a, b) \in Rots

\* "negx" (the branch cut of arctan2) belongs to the coordinate chart, not to the body: it does not rotate with it
\* and a rotation that acts as a reflection on the xy plane exchanges the roles of phi1 and phi2
ChartSets == {"negx"}
NormSets(S) == (S \ (ChartSets \cup {"phi1", "phi2"})) \cup IfS("phi1" \in S \/ "phi2" \in S, "phi")
SamePoint(b1, x1, b2, x2) == /\ LET c1 == Classify(b1, x1) c2 == Classify(b2, x2) IN c1 = c2 /\ SurfaceC(b1, x1, c1) = SurfaceC(b2, x2, c2)
                             /\ NormSets(Sets(b1, x1)) = NormSets(Sets(b2, x2))
                             /\ Singular(b1, x1) = Singular(b2, x2)
PartInv(s, x) == LET w == Classify(s.b, x)
                     ps == {Classify(s.parts[i].b, Sub3(x, s.parts[i].off)) : i \in DOMAIN s.parts} IN
                 /\ ("in" \in ps => w = "in")
                 /\ (w = "out" <=> ps = {"out"})
                 /\ (w = "on" => "on" \in ps)
SingularInv(b, x) == Singular(b, x) <=> (("vertex" \in Sets(b, x) /\ b.cls \in TriangleBased) \/ "position" \in Sets(b, x))
PointInv == pt # <<>> =>
    LET s == Scenes[sc] x == pt IN
    CASE s.fam = "rot" -> SamePoint(s.b, x, s.rb, MulMV(s.R, x)) /\ SingularInv(s.b, x)
                          /\ Local([R |-> s.R, p2 |-> <<1, -2, 3>>], Global([R |-> s.R, p2 |-> <<1, -2, 3>>], x)) = x
      [] s.fam = "same" -> Classify(s.a, x) = Classify(s.b, x)
      [] s.fam = "part" -> PartInv(s, x)
      [] OTHER -> TRUE
\* number of doubled integers x with 2|x| < a, and with 2|x| <= a, inside -N..N
NIn(a) == LET m == (a - 1) \div 2 IN 2 * (IF m > N THEN N ELSE m) + 1
NCl(a) == LET m == a \div 2 IN 2 * (IF m > N THEN N ELSE m) + 1
SceneInv == pt = <<>> =>
    LET s == Scenes[sc] IN
    CASE s.fam = "count" ->
           LET ins == {x \in Pts : Classify(s.b, x) = "in"}
               ons == {x \in Pts : Classify(s.b, x) = "on"}
               d == s.b.dim2 IN
           /\ Cardinality(ins) = NIn(d[1]) * NIn(d[2]) * NIn(d[3])
           /\ Cardinality(ins \cup ons) = NCl(d[1]) * NCl(d[2]) * NCl(d[3])
           /\ ins \cap ons = {}
           /\ \A x \in ons : Surface(s.b, x) \in {"face", "edge", "corner"}
      [] s.fam = "rot" -> BodyOK(s.b) /\ BodyOK(s.rb) /\ PoseOK([R |-> s.R, p2 |-> Zero3])
      [] s.fam = "same" -> BodyOK(s.a) /\ BodyOK(s.b)
      [] s.fam = "part" -> BodyOK(s.b) /\ \A i \in DOMAIN s.parts : BodyOK(s.parts[i].b)
      [] s.fam = "cover" -> /\ \A i \in DOMAIN s.bs : BodyOK(s.bs[i]) /\ s.bs[i].cls = s.bs[1].cls
                            /\ SpecialNames(s.bs[1].cls) \subseteq UNION {Sets(s.bs[i], x) : i \in DOMAIN s.bs, x \in Pts}
      [] OTHER -> TRUE
=============================================================================
