CONSTANTS
 N = 5
 MeshRotN = 3
SPECIFICATION Spec
INVARIANT GroupInv
INVARIANT PointInv
INVARIANT SceneInv
CHECK_DEADLOCK FALSE
