CONSTANTS
 N = 6
 MeshRotN = 24
SPECIFICATION Spec
INVARIANT GroupInv
INVARIANT PointInv
INVARIANT SceneInv
CHECK_DEADLOCK FALSE
