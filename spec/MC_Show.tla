------------------------------ MODULE MC_Show ------------------------------
(* Small model of show(): TLC enumerates the scenarios (object class x pose path from a palette x frames selector x   *)
(* length unit x backend x where the selector is given), checks the internal consistency of the prediction for each  *)
(* (the displayed indices are a non-empty subset of the path, every pose is a lattice pose, every predicted corner    *)
(* of an exact class is a surface point of the cuboid/round predicates' siblings, units are known) and that Show is a *)
(* stuttering step on object, style and defaults state.  The dumped states with phase = "new" are the scenario list  *)
(* the driver executes on real objects (spec -> code direction).                                                       *)
EXTENDS Show
CONSTANTS Classes, PathIds, SelIds, UnitsReq, Backends, Hows, Decors
VARIABLES sc, phase, objstate, defaults, drawn
vars == <<sc, phase, objstate, defaults, drawn>>

RX == <<<<1, 0, 0>>, <<0, 0, -1>>, <<0, 1, 0>>>>
RY == <<<<0, 0, 1>>, <<0, 1, 0>>, <<-1, 0, 0>>>>
RZ == <<<<0, -1, 0>>, <<1, 0, 0>>, <<0, 0, 1>>>>
Pose(p, r) == [p |-> p, r |-> r]
\* the pose-path palette: a static pose, a 3-step path with turning orientation, a 4-step path with a repeated position,
\* a 6-step path (thorough tier)
PathOf(id) ==
    CASE id = "static" -> <<Pose(<<2, -1, 3>>, RZ)>>
      [] id = "path3"  -> <<Pose(<<0, 0, 0>>, Id3), Pose(<<4, 0, 0>>, RZ), Pose(<<4, 5, 0>>, RX)>>
      [] id = "path4"  -> <<Pose(<<1, 1, 1>>, RY), Pose(<<1, 1, 6>>, RY), Pose(<<1, 1, 6>>, RX), Pose(<<-5, 1, 6>>, Id3)>>
      [] id = "path6"  -> <<Pose(<<0, 0, 0>>, Id3), Pose(<<3, 0, 0>>, RZ), Pose(<<6, 0, 0>>, RX), Pose(<<6, 4, 0>>, RY),
                            Pose(<<6, 8, 0>>, RZ), Pose(<<6, 8, 5>>, Id3)>>
SelOf(id) ==
    CASE id = "default" -> [kind |-> "default", n |-> 0, l |-> <<>>]
      [] id = "zero"    -> [kind |-> "int", n |-> 0, l |-> <<>>]
      [] id = "every1"  -> [kind |-> "int", n |-> 1, l |-> <<>>]
      [] id = "every2"  -> [kind |-> "int", n |-> 2, l |-> <<>>]
      [] id = "every3"  -> [kind |-> "int", n |-> 3, l |-> <<>>]
      [] id = "neg2"    -> [kind |-> "int", n |-> -2, l |-> <<>>]
      [] id = "list02"  -> [kind |-> "list", n |-> 0, l |-> <<0, 2>>]
      [] id = "list1_9" -> [kind |-> "list", n |-> 0, l |-> <<1, 9>>]
      [] id = "listneg" -> [kind |-> "list", n |-> 0, l |-> <<-1, 0>>]
      [] id = "empty"   -> [kind |-> "list", n |-> 0, l |-> <<>>]
GeomOf(cls) ==
    CASE cls = "Cuboid"          -> [dim |-> <<2, 4, 1>>, verts |-> <<>>]
      [] cls = "Cylinder"        -> [dim |-> <<2, 3>>, verts |-> <<>>]
      [] cls = "CylinderSegment" -> [dim |-> <<1, 2, 3, 90, 270>>, verts |-> <<>>]
      [] cls = "Sphere"          -> [dim |-> <<3>>, verts |-> <<>>]
      [] cls = "Circle"          -> [dim |-> <<4>>, verts |-> <<>>]
      [] cls = "Tetrahedron"     -> [dim |-> <<>>, verts |-> <<<<0, 0, 0>>, <<2, 0, 0>>, <<0, 3, 0>>, <<0, 0, 1>>>>]
      [] cls = "TriangularMesh"  -> [dim |-> <<>>, verts |-> <<<<-1, -1, 0>>, <<2, 0, 0>>, <<0, 2, 0>>, <<0, 0, 3>>>>]
      [] cls = "Triangle"        -> [dim |-> <<>>, verts |-> <<<<0, 0, 0>>, <<2, 0, 0>>, <<0, 1, 2>>>>]
      [] cls = "Polyline"        -> [dim |-> <<>>, verts |-> <<<<0, 0, 0>>, <<1, 0, 0>>, <<1, 2, 0>>, <<1, 2, -1>>>>]
      [] OTHER                   -> [dim |-> <<>>, verts |-> <<>>]

\* the moment of the Dipole (a vector of the object's frame) varies with the scenario: along +-z (the direction the arrow model is built
\* in, and its reverse), along other axes, in a face diagonal and generic
Moments == <<<<0, 0, 1>>, <<0, 0, -1>>, <<1, 0, 0>>, <<0, -2, 0>>, <<1, -1, 0>>, <<-1, 2, 2>>, <<0, 0, -2>>>>
PathIdx(p) == CASE p = "static" -> 0 [] p = "path3" -> 1 [] p = "path4" -> 2 [] OTHER -> 3
SelIdx(s) == CASE s = "default" -> 0 [] s = "zero" -> 1 [] s = "every1" -> 2 [] s = "every2" -> 3 [] s = "every3" -> 4 [] s = "neg2" -> 5
               [] s = "list02" -> 6 [] s = "list1_9" -> 7 [] s = "listneg" -> 8 [] OTHER -> 9
UnitIdx(u) == CASE u = "auto" -> 0 [] u = "m" -> 0 [] u = "cm" -> 1 [] u = "mm" -> 2 [] u = "um" -> 3 [] OTHER -> 4
GeomOfS(s) == IF s.cls = "Dipole" THEN [dim |-> <<>>, verts |-> <<Moments[((3 * PathIdx(s.path) + SelIdx(s.sel) + UnitIdx(s.unit)) % Len(Moments)) + 1]>>]
              ELSE GeomOf(s.cls)
Scenario(c, p, s, u, b, h, d) == [cls |-> c, path |-> p, sel |-> s, unit |-> u, backend |-> b, how |-> h, decor |-> d]
\* the full product is pruned to what distinguishes behaviour: the unit is a global factor (varied on one path and
\* selector per class), the backend, the place where the selector is given and the decorations likewise.
\*   decor = "bare": magnetization colouring/arrows, current arrows and orientation markers switched off, so that every
\*                   mesh / line of a body trace belongs to the body;  "default": everything show() draws by default
Scenarios ==
    {Scenario(c, p, s, "m", "plotly", "object", "bare") : c \in Classes, p \in PathIds, s \in SelIds}
    \cup {Scenario(c, "path3", "every2", u, "plotly", "object", "default") : c \in Classes, u \in UnitsReq}
    \cup {Scenario(c, "path4", s, "m", b, h, d) : c \in Classes, s \in SelIds \cap {"default", "every2", "list1_9"},
                                                   b \in Backends, h \in Hows, d \in Decors}

\* prediction: for every displayed index the placed corners / anchor (what Show.tla lets the validator demand)
Predict(s) == LET poses == PathOf(s.path) D == Disp(SelOf(s.sel), Len(poses)) g == GeomOfS(s) IN
    [disp |-> D,
     pts |-> IF s.cls \in ExactClasses \cup {"Polyline"} THEN UNION {{Place(poses[m], c) : c \in Corners(s.cls, g)} : m \in D}
             ELSE {VScale(Q, poses[m].p) : m \in D}]

Init == /\ sc \in Scenarios
        /\ phase = "new"
        /\ objstate = [geom |-> GeomOfS(sc), path |-> PathOf(sc.path), sel |-> SelOf(sc.sel)]
        /\ defaults = "defaults0"
        /\ drawn = [disp |-> {}, pts |-> {}]
ShowStep == /\ phase = "new"
            /\ phase' = "shown"
            /\ drawn' = Predict(sc)
            /\ UNCHANGED <<sc, objstate, defaults>>
Next == ShowStep
Spec == Init /\ [][Next]_vars

L == Len(objstate.path)
ScenarioOK == /\ PosesOK(objstate.path)
              /\ SelValid(objstate.sel, L)
              /\ (sc.unit \in Units \cup {"auto"})
DispOK == LET D == Disp(objstate.sel, L) IN D # {} /\ D \subseteq 1..L
\* every predicted corner is a surface point of the placed body (the two descriptions of a cuboid agree), and the
\* prediction never leaves the drawing area of 32 lattice units the integer arithmetic is safe for
PredictOK == phase = "shown" =>
    /\ drawn.disp = Disp(objstate.sel, L)
    /\ \A d \in drawn.pts : \A i \in 1..3 : Abs(d[i]) <= 32 * Q
    /\ (sc.cls = "Cuboid" => \A d \in drawn.pts : \E m \in drawn.disp : OnShape("Cuboid", objstate.geom, Local(objstate.path[m], d), 0))
\* displaying is a stuttering step on objects, styles and defaults
ShowStutters == [][objstate' = objstate /\ defaults' = defaults /\ sc' = sc]_vars
=============================================================================
