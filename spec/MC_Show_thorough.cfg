CONSTANTS
 Classes = {"Cuboid","Cylinder","CylinderSegment","Sphere","Tetrahedron","TriangularMesh","Circle","Polyline","Dipole","Triangle","CustomSource","Sensor","Collection"}
 PathIds = {"static","path3","path4","path6"}
 SelIds = {"default","zero","every1","every2","every3","neg2","list02","list1_9","listneg","empty"}
 UnitsReq = {"auto","m","cm","mm","um","km"}
 Backends = {"plotly","matplotlib"}
 Hows = {"object","showkw"}
 Decors = {"bare","default"}
SPECIFICATION Spec
INVARIANT ScenarioOK
INVARIANT DispOK
INVARIANT PredictOK
PROPERTY ShowStutters
CHECK_DEADLOCK FALSE
