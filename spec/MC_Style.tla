------------------------------ MODULE MC_Style ------------------------------
(* Model-checking wrapper for Style: all histories of assignments, default changes, resets, copies, *)
(* set_children_styles calls, rejected assignments and show calls over a small universe, to the     *)
(* fixpoint.  The universe is the subset ObjSet of                                                  *)
(*   objects  a, c : style class with chain <<magnet>>            (c is the copy partner of a)      *)
(*            b    : style class with chain <<magnet, triangle>>                                     *)
(*            k    : Collection with children <<a, k2>>      k2 : Collection with children <<b>>    *)
(*   leaves   l1   : every object and every family has it (a base leaf)                             *)
(*            l2   : only b and the family triangle have it                                         *)
(*            l3   : objects and the families base, magnet have it (only if "l3" \in Leaves)        *)
EXTENDS Style, TLC
CONSTANTS Vals,      \* valid abstract values, e.g. {"v1", "v2"}
          Leaves,    \* subset of {"l1", "l2", "l3"}
          ObjSet     \* subset of {"a", "b", "c", "k", "k2"}
VARIABLES st, last
vars == <<st, last>>

Colls == ObjSet \cap {"k", "k2"}
FamSet == {"base", "magnet", "triangle"}
VU == Vals \cup {Unset}
ObjHas(o, l) == CASE l = "l1" -> TRUE [] l = "l2" -> o = "b" [] l = "l3" -> o \notin {"k", "k2"}
SeqIn(s) == LET RECURSIVE F(_) F(t) == IF t = <<>> THEN <<>> ELSE IF Head(t) \in ObjSet THEN <<Head(t)>> \o F(Tail(t)) ELSE F(Tail(t)) IN F(s)
KidsOf(o) == SeqIn(CASE o = "k" -> <<"a", "k2">> [] o = "k2" -> <<"b">> [] OTHER -> <<>>)
FamHas(f, l) == CASE l = "l1" -> TRUE [] l = "l2" -> f = "triangle" [] l = "l3" -> f # "triangle"
V1 == CHOOSE v \in Vals : TRUE
V2 == CHOOSE v \in Vals : v # V1
Def0 == [f \in FamSet |-> [l \in Leaves |->
            IF f = "base" /\ l = "l1" THEN V1
            ELSE IF f = "triangle" /\ l = "l2" THEN V2
            ELSE IF f = "magnet" /\ l = "l3" THEN V1 ELSE Unset]]
Cx == [chain |-> [o \in ObjSet |-> IF o = "b" THEN <<"magnet", "triangle">> ELSE IF o \in {"k", "k2"} THEN <<>> ELSE <<"magnet">>],
       kids  |-> [o \in ObjSet |-> KidsOf(o)],
       has   |-> [o \in ObjSet |-> [l \in Leaves |-> ObjHas(o, l)]],
       fhas  |-> [f \in FamSet |-> [l \in Leaves |-> FamHas(f, l)]],
       def0  |-> Def0]
St0 == [objVal |-> [o \in ObjSet |-> [l \in Leaves |-> Unset]], def |-> Def0]

NoKw == [l \in Leaves |-> Unset]
KwSet == [Leaves -> VU]
NoAsg == [l \in {} |-> Unset]
CallY(op, tgt, src, l, v, kw, bn, asg, rec, tgts) ==
    [op |-> op, tgt |-> tgt, src |-> src, l |-> l, v |-> v, kw |-> kw, badname |-> bn, asg |-> asg, rec |-> rec, tgts |-> tgts]
CallX(op, tgt, src, l, v, kw, bn, asg, rec) == CallY(op, tgt, src, l, v, kw, bn, asg, rec, {})
Call(op, tgt, src, l, v, kw, bn) == CallX(op, tgt, src, l, v, kw, bn, NoAsg, FALSE)
\* what set_children_styles may be given: any non-empty set of leaves, each with a value, None or an invalid value
Asgs == UNION {[S -> VU \cup {Bad}] : S \in (SUBSET Leaves) \ {{}}}
Calls ==
       {Call("SetObj", o, "", l, v, NoKw, FALSE) : o \in ObjSet, l \in Leaves \cup {"zzz"}, v \in VU \cup {Bad}}
  \cup {Call("SetDef", f, "", l, v, NoKw, FALSE) : f \in FamSet, l \in Leaves \cup {"zzz"}, v \in VU \cup {Bad}}
  \cup {CallY("SetObjs", "", "", l, v, NoKw, FALSE, NoAsg, FALSE, os) : l \in Leaves, v \in VU \cup {Bad},
                                                                      os \in {s \in SUBSET (ObjSet \ Colls) : Cardinality(s) = 2}}
  \cup {Call("Reset", "", "", "", Unset, NoKw, FALSE)}
  \cup (IF {"a", "c"} \subseteq ObjSet THEN {Call("Copy", "c", "a", "", Unset, NoKw, FALSE), Call("Copy", "a", "c", "", Unset, NoKw, FALSE)} ELSE {})
  \cup {Call("Show", "", "", "", Unset, kw, bn) : kw \in [Leaves -> VU \cup {Bad}], bn \in BOOLEAN}
  \cup {CallX("SetKids", k, "", "", Unset, NoKw, FALSE, asg, rec) : k \in Colls, asg \in Asgs, rec \in BOOLEAN}
  \cup {CallX("SetKids", k, "", "", Unset, NoKw, TRUE, [l \in {"l1"} |-> V1], rec) : k \in Colls, rec \in BOOLEAN}   \* an invalid name

Init == st = St0 /\ last = [op |-> "init"]
Next == \E call \in Calls :
           LET r == Apply(st, Cx, call) IN st' = r.st /\ last' = [call |-> call, ok |-> r.ok]
Spec == Init /\ [][Next]_vars
View == st

TypeOK == /\ st.objVal \in [ObjSet -> [Leaves -> VU]]
          /\ st.def \in [FamSet -> [Leaves -> VU]]
          /\ \A o \in ObjSet, l \in Leaves : ~ObjHas(o, l) => st.objVal[o][l] = Unset
          /\ \A f \in FamSet, l \in Leaves : ~FamHas(f, l) => st.def[f][l] = Unset

\* P1 the effective value is the first given one of: show keyword, object, family defaults (most specific first), base default
Precedence == \A o \in ObjSet, l \in Leaves, kw \in KwSet : PrecedenceAt(st, Cx, o, l, kw)
\* P1' an object whose own leaf is set does not follow the defaults, one whose leaf is unset does
Tracking == \A o \in ObjSet, l \in Leaves :
    /\ st.objVal[o][l] # Unset => Resolve(st, Cx, o, l, NoKw) = st.objVal[o][l]
    /\ (st.objVal[o][l] = Unset /\ ObjHas(o, l)) =>
          Resolve(st, Cx, o, l, NoKw) = FirstSet(Tail(Tail(Candidates(st, Cx, o, l, NoKw))))
\* P1'' resolution of (o, l) reads nothing but o's own leaf l, the keyword for l and the defaults of l in o's families
ResolveLocal == \A o \in ObjSet, l \in Leaves : ObjHas(o, l) =>
    \A o2 \in ObjSet \ {o}, v \in VU :
        Resolve([st EXCEPT !.objVal[o2][l] = v], Cx, o, l, NoKw) = Resolve(st, Cx, o, l, NoKw)

\* P2 the last assignment wins, P3 it changes exactly that leaf of exactly that object / family ("never leaks")
LastWinsAndFrame == [][
    LET c == last'.call IN
    /\ (c.op = "SetObj" /\ last'.ok) =>
          /\ st'.objVal[c.tgt][c.l] = c.v
          /\ OtherLeavesKept(st, st', c.tgt, c.l) /\ OtherObjsKept(st, st', c.tgt) /\ st'.def = st.def
    /\ (c.op = "SetObjs" /\ last'.ok) =>       \* one argument for several constructors: every one of them, nobody else
          /\ \A o \in c.tgts : st'.objVal[o][c.l] = c.v /\ OtherLeavesKept(st, st', o, c.l)
          /\ \A o \in ObjSet \ c.tgts : st'.objVal[o] = st.objVal[o]
          /\ st'.def = st.def
    /\ (c.op = "SetDef" /\ last'.ok) =>
          /\ st'.def[c.tgt][c.l] = c.v
          /\ OtherDefLeavesKept(st, st', c.tgt, c.l) /\ OtherFamsKept(st, st', c.tgt) /\ st'.objVal = st.objVal
  ]_vars
\* P4 invalid names and values are rejected and change nothing; show never changes anything
RejectedNoChange == [][(~last'.ok \/ last'.call.op = "Show") => st' = st]_vars
InvalidRejected == [][
    LET c == last'.call IN
    /\ (c.op \in {"SetObj", "SetDef"} /\ (c.v = Bad \/ c.l = "zzz")) => ~last'.ok
    /\ (c.op = "SetObj" /\ c.l \in Leaves /\ ~ObjHas(c.tgt, c.l)) => ~last'.ok
    /\ (c.op = "Show" /\ (c.badname \/ \E l \in Leaves : c.kw[l] = Bad)) => ~last'.ok
  ]_vars
\* P7 set_children_styles: invalid input rejects the whole call; otherwise exactly the members get exactly the given leaves
\*    they have, as their own values (so Precedence/Tracking, which hold in every state, put them above the defaults and
\*    below show keywords, and by P2 a later own assignment wins); the collection itself, objects outside it, deeper levels
\*    of a non-recursive call and the defaults are untouched
KidsFrame == [][
    LET c == last'.call IN
    c.op = "SetKids" =>
       /\ (c.badname \/ \E l \in DOMAIN c.asg : c.asg[l] = Bad) => (~last'.ok /\ st' = st)
       /\ last'.ok => LET mem == Members(Cx, c.tgt, c.rec) IN
             /\ KidsGot(st', Cx, mem, c.asg) /\ KidsOtherLeavesKept(st, st', Cx, mem, c.asg)
             /\ NonMembersKept(st, st', mem) /\ c.tgt \notin mem /\ st'.def = st.def
  ]_vars
\* membership itself: a recursive call reaches the grandchildren, a non-recursive one stops at the child collection
KidsMembers == \A k \in Colls : KidSet(Cx, k) \subseteq Descendants(Cx, k) /\ k \notin Descendants(Cx, k)
                 /\ (k = "k" /\ {"k2", "b"} \subseteq ObjSet => ("b" \in Members(Cx, k, TRUE) /\ "b" \notin Members(Cx, k, FALSE) /\ "k2" \in Members(Cx, k, FALSE)))
\* P5 reset restores every default and touches no object
ResetRestores == [][last'.call.op = "Reset" => (st'.def = Def0 /\ st'.objVal = st.objVal)]_vars
\* P6 a copy carries the values and is a different object: it changes nothing else, and by P3 later
\*    assignments to either side do not reach the other
CopyIndependent == [][
    LET c == last'.call IN
    c.op = "Copy" => /\ st'.objVal[c.tgt] = st.objVal[c.src]
                     /\ OtherObjsKept(st, st', c.tgt) /\ st'.def = st.def
  ]_vars
=============================================================================
