CONSTANTS
 Vals = {"v1","v2"}
 Leaves = {"l1","l2"}
SPECIFICATION Spec
VIEW View
INVARIANT TypeOK
INVARIANT Precedence
INVARIANT Tracking
INVARIANT ResolveLocal
PROPERTY LastWinsAndFrame
PROPERTY RejectedNoChange
PROPERTY InvalidRejected
PROPERTY ResetRestores
PROPERTY CopyIndependent
CHECK_DEADLOCK FALSE
