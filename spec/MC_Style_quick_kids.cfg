CONSTANTS
 Vals = {"v1","v2"}
 Leaves = {"l1","l2"}
 ObjSet = {"a","b","k","k2"}
SPECIFICATION Spec
VIEW View
INVARIANT TypeOK
INVARIANT Precedence
INVARIANT Tracking
INVARIANT ResolveLocal
INVARIANT KidsMembers
PROPERTY LastWinsAndFrame
PROPERTY RejectedNoChange
PROPERTY InvalidRejected
PROPERTY ResetRestores
PROPERTY CopyIndependent
PROPERTY KidsFrame
CHECK_DEADLOCK FALSE
