----------------------------- MODULE MC_System -----------------------------
(* Histories that interleave tree edits, motion of objects/collections and field observations over one small universe. *)
(* Exhaustive to a small depth; `-simulate` generates deep behaviours replayed into real objects (binding A').          *)
EXTENDS System, TLC
CONSTANTS Depth
VARIABLES st, last, turn        \* turn: mutations and observations alternate, so that simulated behaviours observe the field after every change
vars == <<st, last, turn>>

Colls == {"C1", "C2"}
Srcs == {"S1", "S2"}
Sens == {"X1", "X2"}
Uni == Colls \cup Srcs \cup Sens
Kind0 == [o \in Uni |-> IF o \in Colls THEN "C" ELSE IF o \in Srcs THEN "S" ELSE "X"]
Code(o) == CASE o = "C1" -> 1 [] o = "C2" -> 2 [] o = "S1" -> 3 [] o = "S2" -> 4 [] o = "X1" -> 5 [] o = "X2" -> 6
Gens == <<IdM, Rz90, Rx90, Ry90>>
InitPath(o) == [pos |-> <<<<Code(o), 2 - Code(o), Code(o) - 3>>>>, ori |-> <<Gens[(Code(o) % 4) + 1]>>]
St0 == [kind |-> Kind0, parent |-> [o \in Uni |-> Tree!None],
        children |-> [c \in Colls |-> <<>>], srcs |-> [c \in Colls |-> <<>>], sens |-> [c \in Colls |-> <<>>], colls |-> [c \in Colls |-> <<>>],
        path |-> [o \in Uni |-> InitPath(o)]]

\* ---- tree edits
TCall(op, self, args, ov) == [kind |-> "tree", op |-> op, self |-> self, args |-> args, ov |-> ov, rec |-> TRUE, errors |-> "raise"]
TreeCalls == {TCall("add", c, <<a>>, ov) : c \in Colls, a \in Uni, ov \in BOOLEAN}
        \cup {TCall("add", c, <<a, b>>, TRUE) : c \in Colls, a \in Srcs, b \in Sens}
        \cup {TCall("remove", c, <<a>>, FALSE) : c \in Colls, a \in Uni}
        \cup {TCall("parent", o, <<p>>, TRUE) : o \in Uni, p \in Colls \cup {Tree!None}}
\* ---- motion (single-object and compound)
Scalar(x) == [scalar |-> TRUE, v |-> <<x>>]
Vector(s) == [scalar |-> FALSE, v |-> s]
PCall(op, o, inp, anc, start) == [kind |-> "path", op |-> op, o |-> o, inp |-> inp, anc |-> anc, start |-> start]
Starts == {AutoStart, IntStart(0), IntStart(-1), IntStart(1)}
PathCalls == {PCall("move", o, d, NoAnchor, s) : o \in Uni, d \in {Scalar(<<1, -2, 0>>), Vector(<<<<0, 1, 0>>, <<2, 0, 1>>>>)}, s \in Starts}
        \cup {PCall("rotate", o, g, a, s) : o \in Uni, g \in {Scalar(Rz90), Vector(<<Rx90, Rz90>>)},
                a \in {NoAnchor, [kind |-> "vec", scalar |-> TRUE, v |-> <<<<1, 1, 0>>>>]}, s \in Starts}
        \cup {PCall("setpos", o, Vector(<<<<2, 0, 1>>>>), NoAnchor, AutoStart) : o \in Uni}
        \cup {PCall("setori", o, Vector(<<Ry90, Rz90>>), NoAnchor, AutoStart) : o \in Uni}
        \cup {PCall("reset", o, Scalar(Zero3), NoAnchor, AutoStart) : o \in Colls}
\* ---- field observations: a collection with sources and sensors observes itself; or explicit sources / sensors
OCall(srcs, sens, field, sumup) == [kind |-> "observe", srcs |-> srcs, sens |-> sens, field |-> field, sumup |-> sumup]
ObsCalls(s) == {c \in {OCall(<<a>>, <<x>>, f, FALSE) : a \in Colls \cup Srcs, x \in Sens, f \in {"B", "H"}}
                       \cup {OCall(<<a, b>>, <<"X1", "X2">>, "B", su) : a \in Colls \cup Srcs, b \in Srcs, su \in BOOLEAN} :
                   Observable(s, c.srcs, c.sens)}

Init == st = St0 /\ last = [kind |-> "init"] /\ turn = "mutate"
Mutate == /\ turn = "mutate" /\ turn' = "observe"
          /\ \/ \E c \in TreeCalls : LET r == TreeStep(st, c) IN st' = r.st /\ last' = [c EXCEPT !.errors = IF r.ok THEN "ok" ELSE "raise"]
             \/ \E c \in PathCalls : st' = PathStep(st, c).st /\ last' = c
ObserveStep == /\ turn = "observe" /\ turn' = "mutate" /\ st' = st
               /\ IF ObsCalls(st) = {} THEN last' = [kind |-> "skip"]
                  ELSE \E c \in ObsCalls(st) : last' = [kind |-> "observe", e |-> CallOf(st, c.srcs, c.sens, c.field, c.sumup), srcs |-> c.srcs, sens |-> c.sens]
Next == Mutate \/ ObserveStep
Spec == Init /\ [][Next]_vars
View == <<st, turn>>
Bound == TLCGet("level") <= Depth

Inv == SystemInv(st)
\* C10 across tree edits: whatever the history, moving/rotating a collection leaves the field seen by its own sensors unchanged
\* (when the members share the collection's path length), edge-padded or end-sliced along with the path
InternalOK(s, c) == \E a \in Srcs : a \in Tree!Desc(s, c) /\ \E x \in Sens : x \in Tree!Desc(s, c)
InternalSens(s, c) == LET RECURSIVE FS(_)
                          FS(q) == IF q = <<>> THEN <<>> ELSE IF s.kind[Head(q)] = "X" THEN <<Head(q)>> \o FS(Tail(q)) ELSE FS(Tail(q))
                      IN FS(Tree!AllBelow(s, c))
InternalField(s, c) == LET T == Observe(s, <<c>>, InternalSens(s, c), "B", FALSE) IN [m \in 1..Len(T[1]) |-> T[1][m]]
FieldKept == [][(last'.kind = "path" /\ last'.o \in Colls /\ InternalOK(st, last'.o) /\ SubLen(PathView(st), last'.o))
                  => IsPadSliceImage(InternalField(st', last'.o), InternalField(st, last'.o))]_vars
=============================================================================
