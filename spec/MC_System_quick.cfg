CONSTANTS
 Depth = 3
SPECIFICATION Spec
VIEW View
CONSTRAINT Bound
INVARIANT Inv
PROPERTY FieldKept
CHECK_DEADLOCK FALSE
