CONSTANTS
 Depth = 40
SPECIFICATION Spec
INVARIANT Inv
CHECK_DEADLOCK FALSE
