------------------------------ MODULE MC_Tree ------------------------------
(* Model-checking wrapper: all histories of tree-editing calls over a fixed universe. *)
EXTENDS Tree, TLC
CONSTANTS Colls, Srcs, Sens,      \* sets of strings
          MaxArgs,                \* longest argument list
          WithBad                 \* include a non-object among the arguments
VARIABLES st, last
vars == <<st, last>>

Universe == Colls \cup Srcs \cup Sens
Kind0 == [o \in Universe |-> IF o \in Colls THEN "C" ELSE IF o \in Srcs THEN "S" ELSE "X"]
St0 == [kind |-> Kind0, parent |-> [o \in Universe |-> None],
        children |-> [c \in Colls |-> <<>>], srcs |-> [c \in Colls |-> <<>>],
        sens |-> [c \in Colls |-> <<>>], colls |-> [c \in Colls |-> <<>>]]

ArgElems == Universe \cup (IF WithBad THEN {BadArg} ELSE {})
ArgLists(lo, hi) == UNION {[1..n -> ArgElems] : n \in lo..hi}
Call(op, self, args, ov, rec, errors) == [op |-> op, self |-> self, args |-> args, ov |-> ov, rec |-> rec, errors |-> errors]
Calls(s) ==
       {Call("add", c, a, ov, TRUE, "raise") : c \in Colls, a \in ArgLists(1, MaxArgs), ov \in BOOLEAN}
  \cup {Call("remove", c, a, FALSE, rec, er) : c \in Colls, a \in ArgLists(1, MaxArgs), rec \in BOOLEAN, er \in {"raise", "ignore"}}
  \cup {Call("remove", c, <<a>>, FALSE, TRUE, "bogus") : c \in Colls, a \in ArgElems}
  \cup {Call("parent", o, <<p>>, TRUE, TRUE, "raise") : o \in Universe, p \in Colls \cup {None} \cup (IF WithBad THEN {BadArg} ELSE {})}
  \cup {Call("children", c, a, TRUE, TRUE, "raise") : c \in Colls, a \in ArgLists(0, MaxArgs)}
  \cup {Call(k, c, a, TRUE, TRUE, "raise") : k \in {"sources", "sensors", "collections"}, c \in Colls, a \in ArgLists(0, MaxArgs)}
  \cup UNION {{Call("plus", c, <<a, b>>, FALSE, TRUE, "raise") : a \in Universe \ {c}, b \in Universe \ {c}} : c \in {x \in Colls : Fresh(s, x)}}

Init == st = St0 /\ last = [op |-> "init"]
Next == \E call \in Calls(st) :
           LET r == Apply(st, call) IN st' = r.st /\ last' = [call |-> call, ok |-> r.ok]
Spec == Init /\ [][Next]_vars
View == st

Inv == ForestInv(st)
\* the derived *_all views are duplicate-free flattenings that contain exactly the descendants of that kind
AllViewsOK == \A c \in Colls : \A k \in {"S", "X", "C"} :
    LET v == AllOfKind(st, c, k) IN
      /\ \A i, j \in DOMAIN v : i # j => v[i] # v[j]
      /\ Range(v) = {o \in Desc(st, c) : Kind0[o] = k}
\* a rejected call never breaks the forest, and a call that does not mention an object leaves its parent alone
Frame == [][\A o \in Universe :
              (o \notin Range(last'.call.args) /\ o # last'.call.self /\ ~(\E a \in Range(last'.call.args) : a \in Colls /\ o \in Desc(st, a))
               /\ last'.call.op \notin {"children", "sources", "sensors", "collections"})
              => st'.parent[o] = st.parent[o]]_vars
=============================================================================
