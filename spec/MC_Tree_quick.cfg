CONSTANTS
 Colls = {"C1","C2","C3"}
 Srcs = {"S1"}
 Sens = {"X1"}
 MaxArgs = 2
 WithBad = TRUE
SPECIFICATION Spec
VIEW View
INVARIANT Inv
INVARIANT AllViewsOK
PROPERTY Frame
CHECK_DEADLOCK FALSE
