-------------------------------- MODULE Mesh --------------------------------
(* Triangular surface meshes on the integer lattice: exact combinatorial and volumetric ground truth. *)
(*                                                                                                    *)
(* A mesh is a record [v |-> Seq(Vec), f |-> Seq(Face)]: vertices in Z^3, faces are 1-based triples   *)
(* of vertex indices.  Everything below is integer arithmetic (determinants of lattice vectors), so    *)
(* TLC evaluates it exactly.  The module has three parts:                                             *)
(*   1. ground truth computed FROM A GIVEN (v, f): Open, Components/Disconnected, Consistent, Vol6,    *)
(*      Outward, SameFaceSets, SelfIntersecting (exact closed triangle/triangle test), the interval    *)
(*      predicate for two lattice boxes, exact point classification Inside/Outside/OnSurface;          *)
(*   2. a reference reorientation RefOrient (propagate over shared edges, fix the sign by the volume); *)
(*   3. the transformation actions in functional form (PermuteFaces, RenumberVertices, FlipFaces,      *)
(*      RewindCyclic, DeleteFaces, DuplicateShifted, Interpenetrate, Stretch) and the base meshes.     *)
(* Used by MC_Mesh (model checking of the ground truth itself) and by TV_Mesh (verdicts on logged      *)
(* constructions of the real TriangularMesh class).                                                    *)
EXTENDS Integers, Sequences, FiniteSets

\* ------------------------------------------------------------------ lattice vectors
Add(a, b) == <<a[1] + b[1], a[2] + b[2], a[3] + b[3]>>
Sub(a, b) == <<a[1] - b[1], a[2] - b[2], a[3] - b[3]>>
Dot(a, b) == a[1] * b[1] + a[2] * b[2] + a[3] * b[3]
Cross(a, b) == <<a[2] * b[3] - a[3] * b[2], a[3] * b[1] - a[1] * b[3], a[1] * b[2] - a[2] * b[1]>>
Scale(k, a) == <<k * a[1], k * a[2], k * a[3]>>
Det3(a, b, c) == Dot(a, Cross(b, c))
\* 6 x signed volume of the tetrahedron (a,b,c,d): > 0 iff d is on the side of plane (a,b,c) its normal (b-a)x(c-a) points to
Orient(a, b, c, d) == Dot(Cross(Sub(b, a), Sub(c, a)), Sub(d, a))
Sgn(x) == IF x > 0 THEN 1 ELSE IF x < 0 THEN -1 ELSE 0
Min2(a, b) == IF a < b THEN a ELSE b
Max2(a, b) == IF a > b THEN a ELSE b

\* ------------------------------------------------------------------ combinatorics of the face list
FaceIdx(F) == 1..Len(F)
VertsOf(f) == {f[1], f[2], f[3]}
DirEdges(f) == {<<f[1], f[2]>>, <<f[2], f[3]>>, <<f[3], f[1]>>}
UEdges(f) == {{f[1], f[2]}, {f[2], f[3]}, {f[3], f[1]}}
FlipFace(f) == <<f[1], f[3], f[2]>>
RotFace(f) == <<f[2], f[3], f[1]>>
Pos(V, f) == {V[f[1]], V[f[2]], V[f[3]]}            \* the geometric triangle as a set of points
Normal(V, f) == Cross(Sub(V[f[2]], V[f[1]]), Sub(V[f[3]], V[f[1]]))

\* indices in range, three distinct corners per face, no face of zero area; no two vertices at the same point
WellFormed(V, F) ==
  /\ \A i \in FaceIdx(F) : VertsOf(F[i]) \subseteq 1..Len(V) /\ Cardinality(VertsOf(F[i])) = 3
  /\ \A i \in FaceIdx(F) : Normal(V, F[i]) # <<0, 0, 0>>
DistinctPoints(V) == \A i, j \in 1..Len(V) : i # j => V[i] # V[j]

\* --- open: some undirected edge does not belong to exactly two faces
CountU(F, u) == Cardinality({i \in FaceIdx(F) : u \subseteq VertsOf(F[i])})    \* any two corners of a triangle span one of its edges
OpenEdges(F) == {u \in UNION {UEdges(F[i]) : i \in FaceIdx(F)} : CountU(F, u) # 2}
Open(F) == OpenEdges(F) # {}

\* --- connected components of faces; mode "v": faces sharing a vertex are connected (the documented meaning of
\*     "parts"); mode "e": faces sharing an edge are connected (what orientation propagates over)
NCommon(f, g) == Cardinality({ab \in (1..3) \X (1..3) : f[ab[1]] = g[ab[2]]})      \* number of common corners
Adjacent(F, i, j, mode) == IF mode = "v" THEN \E a, b \in 1..3 : F[i][a] = F[j][b]
                                          ELSE NCommon(F[i], F[j]) >= 2
RECURSIVE Grow(_, _, _)
Grow(F, S, mode) == LET S2 == S \cup {i \in FaceIdx(F) : \E j \in S : Adjacent(F, i, j, mode)}
                    IN IF S2 = S THEN S ELSE Grow(F, S2, mode)
RECURSIVE Comps(_, _, _)
Comps(F, left, mode) == IF left = {} THEN {}
                        ELSE LET s == CHOOSE i \in left : \A j \in left : i <= j
                                 c == Grow(F, {s}, mode)
                             IN {c} \cup Comps(F, left \ c, mode)
Components(F) == Comps(F, FaceIdx(F), "v")
EdgeComponents(F) == Comps(F, FaceIdx(F), "e")
Disconnected(F) == Cardinality(Components(F)) > 1

\* --- orientation
\* consistent orientation of a closed component: every directed edge occurs once and its reverse once
\* (no directed edge twice, and the set of directed edges closed under reversal)
DirEdgesOf(F, C) == UNION {DirEdges(F[i]) : i \in C}
Consistent(F, C) == LET D == DirEdgesOf(F, C) IN Cardinality(D) = 3 * Cardinality(C) /\ \A e \in D : <<e[2], e[1]>> \in D
RECURSIVE SumDet(_, _, _)
SumDet(V, F, S) == IF S = {} THEN 0
                   ELSE LET i == CHOOSE i \in S : TRUE
                        IN Det3(V[F[i][1]], V[F[i][2]], V[F[i][3]]) + SumDet(V, F, S \ {i})
Vol6(V, F, C) == SumDet(V, F, C)                    \* 6 x signed volume enclosed by the faces of C (divergence theorem)
\* all faces point outwards: every (edge-connected) closed component is consistently oriented and encloses positive volume
\* (for separate bodies; a component inside another one bounds a cavity and "outwards" would mean negative volume there -
\*  the validator demands Outward only for meshes whose components are Separated)
Outward(V, F) == \A C \in EdgeComponents(F) : Consistent(F, C) /\ Vol6(V, F, C) > 0
\* reorientation may only change the winding of individual faces
SameFaceSets(F1, F2) == Len(F1) = Len(F2) /\ \A i \in FaceIdx(F1) : VertsOf(F1[i]) = VertsOf(F2[i])
\* two meshes describe the same set of geometric triangles (face order, winding and vertex numbering forgotten)
TriSet(V, F) == {Pos(V, F[i]) : i \in FaceIdx(F)}
SameBody(V1, F1, V2, F2) == Len(F1) = Len(F2) /\ TriSet(V1, F1) = TriSet(V2, F2) /\ Cardinality(TriSet(V1, F1)) = Len(F1)

\* ------------------------------------------------------------------ exact intersection tests
\* in-plane orientation of (x,y,z) seen against the plane normal n
O2(n, x, y, z) == Dot(n, Cross(Sub(y, x), Sub(z, x)))
\* point x of the plane of (a,b,c) lies in the closed triangle; n = (b-a)x(c-a)
InTri(n, a, b, c, x) == O2(n, a, b, x) >= 0 /\ O2(n, b, c, x) >= 0 /\ O2(n, c, a, x) >= 0
\* closed segments [p,q] and [r,s] of one plane (normal n) meet
SegSeg(n, p, q, r, s) ==
  LET o1 == Sgn(O2(n, p, q, r))  o2 == Sgn(O2(n, p, q, s))
      o3 == Sgn(O2(n, r, s, p))  o4 == Sgn(O2(n, r, s, q))
  IN IF o1 = 0 /\ o2 = 0 /\ o3 = 0 /\ o4 = 0
     THEN LET d == Sub(q, p)  tr == Dot(d, Sub(r, p))  ts == Dot(d, Sub(s, p))   \* collinear: 1-d overlap
          IN Max2(tr, ts) >= 0 /\ Min2(tr, ts) <= Dot(d, d)
     ELSE o1 * o2 <= 0 /\ o3 * o4 <= 0
\* closed segment [p,q] meets the closed non-degenerate triangle (a,b,c)
SegTri(p, q, a, b, c) ==
  LET n == Cross(Sub(b, a), Sub(c, a))
      dp == Sgn(Dot(n, Sub(p, a)))  dq == Sgn(Dot(n, Sub(q, a)))
  IN IF dp * dq > 0 THEN FALSE                                   \* both ends strictly on one side
     ELSE IF dp # 0 \/ dq # 0 THEN                               \* meets the plane in exactly one point
       LET s1 == Sgn(Orient(p, q, a, b))  s2 == Sgn(Orient(p, q, b, c))  s3 == Sgn(Orient(p, q, c, a))
       IN (s1 >= 0 /\ s2 >= 0 /\ s3 >= 0) \/ (s1 <= 0 /\ s2 <= 0 /\ s3 <= 0)
     ELSE InTri(n, a, b, c, p) \/ InTri(n, a, b, c, q)           \* segment lies in the plane
          \/ SegSeg(n, p, q, a, b) \/ SegSeg(n, p, q, b, c) \/ SegSeg(n, p, q, c, a)
\* the segment pierces the open triangle transversally at an interior point of both
SegTriProper(p, q, a, b, c) ==
  LET n == Cross(Sub(b, a), Sub(c, a))
      dp == Sgn(Dot(n, Sub(p, a)))  dq == Sgn(Dot(n, Sub(q, a)))
      s1 == Sgn(Orient(p, q, a, b))  s2 == Sgn(Orient(p, q, b, c))  s3 == Sgn(Orient(p, q, c, a))
  IN dp * dq < 0 /\ s1 # 0 /\ s1 = s2 /\ s2 = s3

EdgeSegs(T) == {<<T[1], T[2]>>, <<T[2], T[3]>>, <<T[3], T[1]>>}      \* T: triple of points
TriPts(V, f) == <<V[f[1]], V[f[2]], V[f[3]]>>
SomeEdgeHits(S, T) == \E e \in EdgeSegs(S) : SegTri(e[1], e[2], T[1], T[2], T[3])
\* two faces meet in more than their common corner/edge (two closed triangles of a proper surface mesh meet exactly
\* in the simplex spanned by their shared corners).  By number k of shared corners:
\*  k=0: they meet iff an edge of one meets the other;  k=1 (apex w): iff the edge opposite w of one meets the other
\*  (follow a ray from w through a common point to where it leaves the intersection);  k=2 (hinge u,v): iff coplanar
\*  with both third corners on the same side of the hinge;  k=3: the same triangle twice.
\* (corners are identified by their index: two different vertices at one point are a contact, not a shared corner)
FarApart(S, T) == \E k \in 1..3 :                       \* bounding boxes separated along an axis: cannot meet
   \/ Max2(Max2(S[1][k], S[2][k]), S[3][k]) < Min2(Min2(T[1][k], T[2][k]), T[3][k])
   \/ Max2(Max2(T[1][k], T[2][k]), T[3][k]) < Min2(Min2(S[1][k], S[2][k]), S[3][k])
OneSide(S, T) == LET a == Sgn(Orient(T[1], T[2], T[3], S[1])) IN       \* S strictly on one side of the plane of T: cannot meet
   a # 0 /\ Sgn(Orient(T[1], T[2], T[3], S[2])) = a /\ Sgn(Orient(T[1], T[2], T[3], S[3])) = a
FacesClash(V, f, g) ==
  LET S == TriPts(V, f)  T == TriPts(V, g)
      sh == VertsOf(f) \cap VertsOf(g)
      k == Cardinality(sh)
  IN IF FarApart(S, T) THEN FALSE
     ELSE IF k = 0 THEN ~OneSide(S, T) /\ ~OneSide(T, S) /\ (SomeEdgeHits(S, T) \/ SomeEdgeHits(T, S))
     ELSE IF k = 1 THEN
       LET w == CHOOSE w \in sh : TRUE
           fo == CHOOSE e \in DirEdges(f) : e[1] # w /\ e[2] # w
           go == CHOOSE e \in DirEdges(g) : e[1] # w /\ e[2] # w
       IN SegTri(V[fo[1]], V[fo[2]], T[1], T[2], T[3]) \/ SegTri(V[go[1]], V[go[2]], S[1], S[2], S[3])
     ELSE IF k = 2 THEN
       LET iu == CHOOSE u \in sh : TRUE
           iv == CHOOSE v \in sh : v # iu
           ia == CHOOSE a \in VertsOf(f) : a \notin sh
           ib == CHOOSE b \in VertsOf(g) : b \notin sh
           u == V[iu]  v == V[iv]  a == V[ia]  b == V[ib]
       IN Orient(u, v, a, b) = 0 /\ Dot(Cross(Sub(v, u), Sub(a, u)), Cross(Sub(v, u), Sub(b, u))) > 0
     ELSE TRUE
ClashPairs(V, F) == {p \in FaceIdx(F) \X FaceIdx(F) : p[1] < p[2] /\ FacesClash(V, F[p[1]], F[p[2]])}
SelfIntersecting(V, F) == \E i, j \in FaceIdx(F) : i < j /\ FacesClash(V, F[i], F[j])
\* some edge pierces the interior of some face transversally (the generic, unmistakable kind of self-intersection)
ProperlyCrossing(V, F) == \E i, j \in FaceIdx(F) : i # j /\
   \E e \in EdgeSegs(TriPts(V, F[i])) : SegTriProper(e[1], e[2], V[F[j][1]], V[F[j][2]], V[F[j][3]])
\* class of a mesh for the self-intersection check
CrossClass(V, F) == IF ~SelfIntersecting(V, F) THEN "none"
                    ELSE IF ProperlyCrossing(V, F) THEN "proper" ELSE "degenerate"

\* --- two axis-aligned lattice boxes [lo1,hi1], [lo2,hi2] (lo < hi componentwise)
BoxOverlapOpen(lo1, hi1, lo2, hi2) == \A k \in 1..3 : Max2(lo1[k], lo2[k]) < Min2(hi1[k], hi2[k])     \* interiors meet
BoxOverlapClosed(lo1, hi1, lo2, hi2) == \A k \in 1..3 : Max2(lo1[k], lo2[k]) <= Min2(hi1[k], hi2[k])
BoxInInterior(lo1, hi1, lo2, hi2) == \A k \in 1..3 : lo2[k] < lo1[k] /\ hi1[k] < hi2[k]              \* box 1 inside open box 2
\* the two surfaces have a common point
BoxSurfacesMeet(lo1, hi1, lo2, hi2) == BoxOverlapClosed(lo1, hi1, lo2, hi2)
                                       /\ ~BoxInInterior(lo1, hi1, lo2, hi2) /\ ~BoxInInterior(lo2, hi2, lo1, hi1)
\* the bodies interpenetrate: interiors meet and neither contains the other
BoxContains(lo1, hi1, lo2, hi2) == \A k \in 1..3 : lo2[k] <= lo1[k] /\ hi1[k] <= hi2[k]               \* box 1 in closed box 2
BoxesInterpenetrate(lo1, hi1, lo2, hi2) == BoxOverlapOpen(lo1, hi1, lo2, hi2)
                                           /\ ~BoxContains(lo1, hi1, lo2, hi2) /\ ~BoxContains(lo2, hi2, lo1, hi1)
\* bounding box of a set of face indices
CoordsOf(V, F, C, k) == {V[i][k] : i \in UNION {VertsOf(F[j]) : j \in C}}
MinOf(S) == CHOOSE x \in S : \A y \in S : x <= y
MaxOf(S) == CHOOSE x \in S : \A y \in S : x >= y
BBoxLo(V, F, C) == <<MinOf(CoordsOf(V, F, C, 1)), MinOf(CoordsOf(V, F, C, 2)), MinOf(CoordsOf(V, F, C, 3))>>
BBoxHi(V, F, C) == <<MaxOf(CoordsOf(V, F, C, 1)), MaxOf(CoordsOf(V, F, C, 2)), MaxOf(CoordsOf(V, F, C, 3))>>
\* the bounding boxes of the components are pairwise disjoint: separate bodies, none inside a cavity of another
Separated(V, F) == LET cs == EdgeComponents(F) IN
   \A C, D \in cs : C # D => ~BoxOverlapClosed(BBoxLo(V, F, C), BBoxHi(V, F, C), BBoxLo(V, F, D), BBoxHi(V, F, D))
\* the component C is the surface of its bounding box: all corners are box corners and it encloses the box volume
IsBoxSurface(V, F, C) ==
  LET lo == BBoxLo(V, F, C)  hi == BBoxHi(V, F, C)
      d == Sub(hi, lo)
      vol == Vol6(V, F, C)
  IN /\ \A i \in UNION {VertsOf(F[j]) : j \in C} : \A k \in 1..3 : V[i][k] \in {lo[k], hi[k]}
     /\ (vol = 6 * d[1] * d[2] * d[3] \/ vol = -6 * d[1] * d[2] * d[3])

\* ------------------------------------------------------------------ exact point classification (closed mesh)
\* p on the surface: in the plane of a face and inside the closed triangle
OnSurface(V, F, p) == \E i \in FaceIdx(F) :
   LET a == V[F[i][1]]  b == V[F[i][2]]  c == V[F[i][3]] IN
   Orient(a, b, c, p) = 0 /\ InTri(Normal(V, F[i]), a, b, c, p)
\* ray p + t*d, t > 0 from a point p off the surface: direction d is generic if it is parallel to no face and the line
\* meets no face in a boundary point (a face whose plane contains p is met only in p itself, i.e. not at all)
GenericDir(V, F, p, d) == \A i \in FaceIdx(F) :
   LET a == V[F[i][1]]  b == V[F[i][2]]  c == V[F[i][3]]  q == Add(p, d)
       n == Normal(V, F[i])
       s1 == Sgn(Orient(p, q, a, b))  s2 == Sgn(Orient(p, q, b, c))  s3 == Sgn(Orient(p, q, c, a))
       weak == (s1 >= 0 /\ s2 >= 0 /\ s3 >= 0) \/ (s1 <= 0 /\ s2 <= 0 /\ s3 <= 0)
       strict == s1 # 0 /\ s1 = s2 /\ s2 = s3
   IN Dot(n, d) # 0 /\ (Dot(n, Sub(a, p)) = 0 \/ strict \/ ~weak)
RayHits(V, F, p, d) == {i \in FaceIdx(F) :
   LET a == V[F[i][1]]  b == V[F[i][2]]  c == V[F[i][3]]  q == Add(p, d)
       n == Normal(V, F[i])
       s1 == Sgn(Orient(p, q, a, b))  s2 == Sgn(Orient(p, q, b, c))  s3 == Sgn(Orient(p, q, c, a))
   IN s1 = s2 /\ s2 = s3 /\ Sgn(Dot(n, Sub(a, p))) = Sgn(Dot(n, d)) /\ Dot(n, Sub(a, p)) # 0}
RayDirs == <<<<17, 5, 3>>, <<3, 17, 5>>, <<5, 3, 17>>, <<13, -7, 5>>, <<-5, 13, 7>>, <<7, 5, -13>>, <<-11, -3, 19>>, <<19, 11, -2>>>>
RECURSIVE FirstGeneric(_, _, _, _)
FirstGeneric(V, F, p, k) == IF k > Len(RayDirs) THEN 0
                            ELSE IF GenericDir(V, F, p, RayDirs[k]) THEN k ELSE FirstGeneric(V, F, p, k + 1)
\* "in" / "out" / "on" / "undecided" for a point p and a closed mesh without self-intersection
PointClass(V, F, p) ==
  IF OnSurface(V, F, p) THEN "on"
  ELSE LET k == FirstGeneric(V, F, p, 1)
       IN IF k = 0 THEN "undecided"
          ELSE IF Cardinality(RayHits(V, F, p, RayDirs[k])) % 2 = 1 THEN "in" ELSE "out"
\* for a convex body with outward faces: strictly inside all face planes / strictly outside one
ConvexClass(V, F, p) ==
  IF \A i \in FaceIdx(F) : Orient(V[F[i][1]], V[F[i][2]], V[F[i][3]], p) < 0 THEN "in"
  ELSE IF \E i \in FaceIdx(F) : Orient(V[F[i][1]], V[F[i][2]], V[F[i][3]], p) > 0 THEN "out" ELSE "on"

\* ------------------------------------------------------------------ reference reorientation
\* orient every edge-connected component from its first face by propagation over shared edges, then flip the whole
\* component if it encloses negative volume.  Result: the set of faces to flip.
SharesEdge(f, g) == NCommon(f, g) >= 2
RECURSIVE Propagate(_, _, _, _)
Propagate(F, C, done, flip) ==
  LET cand == {i \in C \ done : \E j \in done : SharesEdge(F[i], F[j])}
  IN IF cand = {} THEN flip
     ELSE LET i == CHOOSE i \in cand : \A i2 \in cand : i <= i2
              j == CHOOSE j \in done : SharesEdge(F[i], F[j])
              fj == IF j \in flip THEN FlipFace(F[j]) ELSE F[j]
              clash == DirEdges(F[i]) \cap DirEdges(fj) # {}      \* common edge run through in the same direction
          IN Propagate(F, C, done \cup {i}, IF clash THEN flip \cup {i} ELSE flip)
ApplyFlips(F, S) == [i \in FaceIdx(F) |-> IF i \in S THEN FlipFace(F[i]) ELSE F[i]]
RefFlipsOf(V, F, C) ==
  LET s == CHOOSE i \in C : \A j \in C : i <= j
      fl == Propagate(F, C, {s}, {})
  IN IF Vol6(V, ApplyFlips(F, fl), C) < 0 THEN C \ fl ELSE fl
RefFlips(V, F) == UNION {RefFlipsOf(V, F, C) : C \in EdgeComponents(F)}
RefOrient(V, F) == ApplyFlips(F, RefFlips(V, F))

\* ------------------------------------------------------------------ transformations (functional form)
IsPerm(p, n) == DOMAIN p = 1..n /\ {p[i] : i \in 1..n} = 1..n
\* new face i is old face p[i]
PermuteFaces(m, p) == [m EXCEPT !.f = [i \in FaceIdx(m.f) |-> m.f[p[i]]]]
\* old vertex j gets the number p[j]
RenumberVertices(m, p) ==
  [v |-> [i \in 1..Len(m.v) |-> m.v[CHOOSE j \in 1..Len(m.v) : p[j] = i]],
   f |-> [i \in FaceIdx(m.f) |-> <<p[m.f[i][1]], p[m.f[i][2]], p[m.f[i][3]]>>]]
FlipFaces(m, S) == [m EXCEPT !.f = ApplyFlips(m.f, S)]
RewindCyclic(m, S) == [m EXCEPT !.f = [i \in FaceIdx(m.f) |-> IF i \in S THEN RotFace(m.f[i]) ELSE m.f[i]]]
RECURSIVE KeepFrom(_, _, _)
KeepFrom(F, S, i) == IF i > Len(F) THEN <<>> ELSE (IF i \in S THEN <<>> ELSE <<F[i]>>) \o KeepFrom(F, S, i + 1)
DeleteFaces(m, S) == [m EXCEPT !.f = KeepFrom(m.f, S, 1)]
Join(m1, m2) == [v |-> m1.v \o m2.v,
                 f |-> m1.f \o [i \in FaceIdx(m2.f) |-> <<m2.f[i][1] + Len(m1.v), m2.f[i][2] + Len(m1.v), m2.f[i][3] + Len(m1.v)>>]]
Shifted(m, d) == [m EXCEPT !.v = [i \in 1..Len(m.v) |-> Add(m.v[i], d)]]
\* a second copy of the mesh displaced by d, and a second part of any shape: whether the result is two disjoint
\* bodies, two bodies in contact or two interpenetrating bodies is decided by the ground truth above, not by the name
DuplicateShifted(m, d) == Join(m, Shifted(m, d))
Interpenetrate(m, part) == Join(m, part)

\* --- anisotropic integer stretch diag(s): flat and slender bodies on the lattice.  A stretch with positive factors is an
\* affine bijection: it preserves incidence, convexity and every intersection, and multiplies every orientation
\* determinant by s[1]*s[2]*s[3] > 0.  Hence Open, Components, Consistent, SelfIntersecting, the sign of Vol6, Outward,
\* RefOrient and PointClass of Stretch(m, s) are those of m (with the points stretched as well).  The determinants of a
\* body stretched by 400 or 10^4 exceed TLC's 32-bit integers, so the ground truth of a stretched mesh is evaluated on the
\* mesh with the stretch divided out exactly; MC_Mesh checks the invariance where the numbers fit (StretchInvariant).
Stretch3(s, p) == <<s[1] * p[1], s[2] * p[2], s[3] * p[3]>>
Stretch(m, s) == [m EXCEPT !.v = [i \in 1..Len(m.v) |-> Stretch3(s, m.v[i])]]
Destretch(s, V) == [i \in 1..Len(V) |-> <<V[i][1] \div s[1], V[i][2] \div s[2], V[i][3] \div s[3]>>]
StretchExact(s, V) == s[1] > 0 /\ s[2] > 0 /\ s[3] > 0 /\ \A i \in 1..Len(V) : Stretch3(s, Destretch(s, V)[i]) = V[i]

\* ------------------------------------------------------------------ life cycle of one object (use, then normalise, then use)
\* An object built WITHOUT normalisation (reorient_faces = skip) keeps the windings it was given; it may be used (field
\* computed, mesh array read), checked, and normalised later by reorient_faces().  Every use after the normalisation must
\* see what an object normalised at construction shows: all faces outward - in `faces` and in the array the field is
\* computed from - and the field of the base body, whatever happened before.
LifeChecks == {"check_open", "check_disconnected", "check_selfintersecting"}
LifeOps == LifeChecks \cup {"use", "reorient"}
ObjInit(F) == [faces |-> F, reoriented |-> FALSE]
ObjApply(V, o, op) == IF op = "reorient" THEN [faces |-> RefOrient(V, o.faces), reoriented |-> TRUE] ELSE o
RECURSIVE ObjRun(_, _, _, _)
ObjRun(V, o, h, k) == IF k > Len(h) THEN o ELSE ObjRun(V, ObjApply(V, o, h[k]), h, k + 1)
NoRep(q) == \A i, j \in 1..Len(q) : i # j => q[i] # q[j]
\* the histories: any order of distinct uses/checks (at most maxPre of them), the normalisation, then a use (directly, after
\* another check, or twice)
LifeHistories(maxPre) ==
  {pre \o <<"reorient">> \o post :
     pre \in {q \in UNION {[1..k -> LifeChecks \cup {"use"}] : k \in 0..maxPre} : NoRep(q)},
     post \in {<<"use">>, <<"check_selfintersecting", "use">>, <<"use", "use">>}}

\* ------------------------------------------------------------------ base meshes (faces outward)
Tetra == [v |-> <<<<0, 0, 0>>, <<2, 0, 0>>, <<0, 2, 0>>, <<0, 0, 2>>>>,
          f |-> <<<<1, 3, 2>>, <<1, 2, 4>>, <<2, 3, 4>>, <<1, 4, 3>>>>]
BoxMesh(lo, hi) ==
  [v |-> <<<<lo[1], lo[2], lo[3]>>, <<lo[1], lo[2], hi[3]>>, <<lo[1], hi[2], lo[3]>>, <<lo[1], hi[2], hi[3]>>,
           <<hi[1], lo[2], lo[3]>>, <<hi[1], lo[2], hi[3]>>, <<hi[1], hi[2], lo[3]>>, <<hi[1], hi[2], hi[3]>>>>,
   f |-> <<<<1, 2, 4>>, <<1, 4, 3>>, <<5, 7, 8>>, <<5, 8, 6>>, <<1, 5, 6>>, <<1, 6, 2>>,
           <<3, 4, 8>>, <<3, 8, 7>>, <<1, 3, 7>>, <<1, 7, 5>>, <<2, 6, 8>>, <<2, 8, 4>>>>]
Box == BoxMesh(<<0, 0, 0>>, <<1, 2, 3>>)
Prism == [v |-> <<<<0, 0, 0>>, <<2, 0, 0>>, <<0, 2, 0>>, <<0, 0, 1>>, <<2, 0, 1>>, <<0, 2, 1>>>>,
          f |-> <<<<1, 3, 2>>, <<4, 5, 6>>, <<1, 2, 5>>, <<1, 5, 4>>, <<2, 3, 6>>, <<2, 6, 5>>, <<3, 1, 4>>, <<3, 4, 6>>>>]
Octa == [v |-> <<<<2, 0, 0>>, <<-2, 0, 0>>, <<0, 2, 0>>, <<0, -2, 0>>, <<0, 0, 2>>, <<0, 0, -2>>>>,
         f |-> <<<<1, 3, 5>>, <<3, 2, 5>>, <<2, 4, 5>>, <<4, 1, 5>>, <<3, 1, 6>>, <<2, 3, 6>>, <<4, 2, 6>>, <<1, 4, 6>>>>]
\* L-shaped prism: the union of the boxes [0,2]x[0,1]x[0,1] and [0,1]x[0,2]x[0,1] as ONE closed surface (non-convex)
LPoly == <<<<0, 0>>, <<2, 0>>, <<2, 1>>, <<1, 1>>, <<1, 2>>, <<0, 2>>>>
\* prism of height 1 over a counter-clockwise lattice polygon; the caps are fans from the first corner
PolyPrism(poly) ==
  LET q == Len(poly) IN
  [v |-> [i \in 1..(2 * q) |-> IF i <= q THEN <<poly[i][1], poly[i][2], 0>> ELSE <<poly[i - q][1], poly[i - q][2], 1>>],
   f |-> [k \in 1..(q - 2) |-> <<1, k + 2, k + 1>>]                            \* bottom, normal -z
         \o [k \in 1..(q - 2) |-> <<q + 1, q + k + 1, q + k + 2>>]             \* top, normal +z
         \o [k \in 1..(2 * q) |-> LET i == (k + 1) \div 2  j == (i % q) + 1    \* side walls
                                  IN IF k % 2 = 1 THEN <<i, j, j + q>> ELSE <<i, j + q, i + q>>]]
LShape == PolyPrism(LPoly)
\* prism over a lattice hexagon: four of the six side walls are slanted (they do not lie on the bounding box)
HexPoly == <<<<2, 0>>, <<1, 2>>, <<-1, 2>>, <<-2, 0>>, <<-1, -2>>, <<1, -2>>>>
HexPrism == PolyPrism(HexPoly)
LBoxes == <<<<<<0, 0, 0>>, <<2, 1, 1>>>>, <<<<0, 0, 0>>, <<1, 2, 1>>>>>>       \* the two boxes whose union the L-shape is
BaseMesh(name) == CASE name = "tetra" -> Tetra [] name = "box" -> Box [] name = "prism" -> Prism
                    [] name = "octa" -> Octa [] name = "lshape" -> LShape [] name = "hexprism" -> HexPrism
BaseNames == {"tetra", "box", "prism", "octa", "lshape", "hexprism"}
Convex(name) == name # "lshape"

\* ------------------------------------------------------------------ observers of the field law
\* quarter-lattice points (coordinates x 4) declared strictly inside / strictly outside each base body; MC_Mesh proves
\* the declaration with PointClass on every variant.  They include points close to faces, on extensions of edges,
\* above corners, in the notch of the L-shape and far away.
ObsIn(name) ==
  CASE name = "tetra" -> {<<2, 2, 2>>, <<1, 1, 5>>, <<4, 1, 1>>}
    [] name = "box" -> {<<2, 4, 6>>, <<1, 1, 1>>, <<3, 7, 11>>, <<2, 1, 9>>}
    [] name = "prism" -> {<<2, 2, 2>>, <<1, 1, 1>>, <<5, 2, 3>>}
    [] name = "octa" -> {<<0, 0, 0>>, <<2, 2, 2>>, <<-2, 0, 1>>, <<0, 1, -6>>}
    [] name = "lshape" -> {<<2, 2, 2>>, <<6, 2, 2>>, <<2, 6, 2>>, <<5, 3, 1>>}
    [] name = "hexprism" -> {<<0, 0, 2>>, <<3, 3, 1>>, <<-5, 1, 3>>, <<2, -6, 2>>}
    [] OTHER -> {}
ObsOut(name) ==
  CASE name = "tetra" -> {<<4, 4, 4>>, <<3, 3, 3>>, <<-2, -2, -2>>, <<12, 0, 0>>, <<2, 2, -1>>, <<8, 8, 8>>, <<0, 0, -4>>, <<20, 12, -16>>}
    [] name = "box" -> {<<-1, 4, 6>>, <<5, 4, 6>>, <<8, 0, 0>>, <<2, 4, 13>>, <<-4, -4, -4>>, <<2, 12, 6>>, <<16, 20, -12>>, <<4, 8, 16>>}
    [] name = "prism" -> {<<5, 5, 2>>, <<2, 2, -1>>, <<2, 2, 5>>, <<-1, 2, 2>>, <<12, 0, 0>>, <<0, 0, 8>>, <<-4, -4, -4>>, <<20, 12, 16>>}
    [] name = "octa" -> {<<3, 3, 3>>, <<0, 0, 12>>, <<5, 5, 0>>, <<-8, -8, -8>>, <<2, 2, 5>>, <<8, 8, 0>>, <<12, -10, 18>>}
    [] name = "lshape" -> {<<6, 6, 2>>, <<5, 5, 2>>, <<-1, 2, 2>>, <<2, 2, 5>>, <<9, 2, 2>>, <<12, 4, 0>>, <<-4, -4, -4>>, <<20, 12, 16>>}
    [] name = "hexprism" -> {<<7, 5, 2>>, <<6, 5, 2>>, <<9, 0, 2>>, <<0, 0, 5>>, <<0, 0, -1>>, <<0, 9, 2>>, <<12, 0, 0>>, <<-20, 12, 16>>}
    [] OTHER -> {}
ObsDen == 4
=============================================================================
