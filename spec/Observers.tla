----------------------------- MODULE Observers -----------------------------
(***************************************************************************)
(* The grammar of the `observers` argument of getB/getH/getJ/getM and what *)
(* it MEANS: which sensors, in which order, with which pixel shape         *)
(* (check_format_input_observers in input_checks.py; docstring of getB:    *)
(* "array_like positions of shape (n1, n2, ..., 3), a Sensor, a Collection *)
(* with at least one Sensor, or a 1D list of such observers; all must have *)
(* similar pixel shapes unless pixel_agg is given").                       *)
(*                                                                         *)
(*   arg ::= [kind |-> "pos",  shape, pts, form]   array_like positions:   *)
(*               shape = <<n1, .., nk>> (without the trailing 3; <<>> for  *)
(*               one bare vector), pts = the vectors in row-major order,   *)
(*               form in {"list", "tuple", "ndarray"} (how it is written)  *)
(*         | [kind |-> "sens", s]                  a Sensor object         *)
(*         | [kind |-> "coll", kids]               a Collection; kids are  *)
(*               sens / coll / [kind |-> "src"] nodes (sources ignored)    *)
(*         | [kind |-> "list", items, form]        list/tuple of the above *)
(*         | [kind |-> "junk"]                     anything else           *)
(*                                                                         *)
(* A list whose items are ALL position arrays of one shape is itself ONE   *)
(* array_like of shape (n, ...shape, 3): one observer with more pixels,    *)
(* not n observers.  In every other list each item is one observer (a      *)
(* collection: its sensors in depth-first order).                          *)
(***************************************************************************)
EXTENDS FieldAlgo

UnitPath == [pos |-> <<Zero3>>, ori |-> <<IdM>>]
\* the pixel-shape convention of the result: a bare vector and a sensor without pixel count as shape (1)
PixShapeOfPos(shape) == IF shape = <<>> THEN <<1>> ELSE shape
PosSensor(shape, pts) == [id |-> "pos", path |-> UnitPath, left |-> FALSE, pix |-> pts, pixshape |-> PixShapeOfPos(shape), pk |-> "arr"]

RECURSIVE SensorsIn(_)
RECURSIVE SensorsInSeq(_)
SensorsInSeq(s) == IF Len(s) = 0 THEN <<>> ELSE SensorsIn(Head(s)) \o SensorsInSeq(Tail(s))
SensorsIn(n) == IF n.kind = "sens" THEN <<n.s>> ELSE IF n.kind = "coll" THEN SensorsInSeq(n.kids) ELSE <<>>

AllPosSameShape(items) == Len(items) >= 1 /\ \A i \in 1..Len(items) : items[i].kind = "pos" /\ items[i].shape = items[1].shape
RECURSIVE ConcatPts(_)
ConcatPts(items) == IF Len(items) = 0 THEN <<>> ELSE Head(items).pts \o ConcatPts(Tail(items))

ItemSensors(it) == CASE it.kind = "pos" -> <<PosSensor(it.shape, it.pts)>>
                     [] it.kind = "sens" -> <<it.s>>
                     [] it.kind = "coll" -> SensorsIn(it)
                     [] OTHER -> <<>>
RECURSIVE ItemsSensors(_)
ItemsSensors(items) == IF Len(items) = 0 THEN <<>> ELSE ItemSensors(Head(items)) \o ItemsSensors(Tail(items))

\* the sensors an observers argument stands for
ObsSensors(arg) ==
    CASE arg.kind = "pos" -> <<PosSensor(arg.shape, arg.pts)>>
      [] arg.kind = "sens" -> <<arg.s>>
      [] arg.kind = "coll" -> SensorsIn(arg)
      [] arg.kind = "list" -> (IF AllPosSameShape(arg.items)
                               THEN <<PosSensor(<<Len(arg.items)>> \o arg.items[1].shape, ConcatPts(arg.items))>>
                               ELSE ItemsSensors(arg.items))
      [] OTHER -> <<>>

\* is the argument one the documentation admits
ItemOK(it) == \/ it.kind = "pos"
              \/ it.kind = "sens"
              \/ (it.kind = "coll" /\ Len(SensorsIn(it)) >= 1)
ObsAdmitted(arg) ==
    CASE arg.kind \in {"pos", "sens"} -> TRUE
      [] arg.kind = "coll" -> Len(SensorsIn(arg)) >= 1
      [] arg.kind = "list" -> Len(arg.items) >= 1 /\ \A i \in 1..Len(arg.items) : ItemOK(arg.items[i])
      [] OTHER -> FALSE

\* the sources argument: every entry must contain at least one source (an empty collection, a collection of sensors only, a bare sensor do not)
SourcesAdmitted(c) == Len(c.sources) >= 1 /\ \A l \in 1..Len(c.sources) : Len(LeavesOf(c.sources[l])) >= 1

\* the call as the requirement view of FieldWrap sees it
CallOfObs(c, arg) == [field |-> c.field, sumup |-> c.sumup, squeeze |-> c.squeeze, agg |-> c.agg, sources |-> c.sources, sensors |-> ObsSensors(arg)]
ObsWellFormed(c, arg) == ObsAdmitted(arg) /\ WellFormed(CallOfObs(c, arg))

\* row-major flattening of the canonical tensor [l][m][k][j] -> <<x, y, z>>
RECURSIVE FlatV(_)
FlatV(s) == IF Len(s) = 0 THEN <<>> ELSE Head(s) \o FlatV(Tail(s))
Flat1(T) == FlatV([l \in 1..Len(T) |-> FlatV([m \in 1..Len(T[l]) |-> FlatV([k \in 1..Len(T[l][m]) |-> FlatV(T[l][m][k])])])])
=============================================================================
