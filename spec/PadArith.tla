------------------------------ MODULE PadArith ------------------------------
(* Integer arithmetic of path padding: transcription of path_padding_param                      *)
(* (class_BaseTransform.py), with `start` already resolved to an integer, and the declarative   *)
(* reading it is proved equal to in Pad_proof.tla (TLAPS, unbounded integers).                  *)
(* Path.tla builds PadP from exactly these operators.                                           *)
EXTENDS Integers
Min(a, b) == IF a < b THEN a ELSE b
Max(a, b) == IF a > b THEN a ELSE b
\* --- transcription
S1(lenop, start) == IF start < 0 THEN lenop + start ELSE start
PadBefore(lenop, start) == IF S1(lenop, start) < 0 THEN -S1(lenop, start) ELSE 0
NewStart(lenop, start) == IF S1(lenop, start) < 0 THEN 0 ELSE S1(lenop, start)
PadBehind(lenop, lenip, start) ==
  IF NewStart(lenop, start) + lenip > lenop + PadBefore(lenop, start)
  THEN NewStart(lenop, start) + lenip - (lenop + PadBefore(lenop, start)) ELSE 0
NewLen(lenop, lenip, start) == lenop + PadBefore(lenop, start) + PadBehind(lenop, lenip, start)
\* --- declarative reading: the operation covers absolute indices [a, a+lenip) with a = start (>= 0) or
\*     lenop+start (< 0), the old path occupies [0, lenop); the new path is the smallest interval covering both
AbsA(lenop, start) == IF start < 0 THEN lenop + start ELSE start
Lo(lenop, start) == Min(0, AbsA(lenop, start))
Hi(lenop, lenip, start) == Max(lenop, AbsA(lenop, start) + lenip)
=============================================================================
