------------------------------ MODULE Pad_proof ------------------------------
(* TLAPS: the padding arithmetic of the code equals the documented index semantics for ALL integers. *)
EXTENDS PadArith, TLAPS
THEOREM PadCorrect ==
  ASSUME NEW lenop \in Nat, NEW lenip \in Nat, NEW start \in Int, lenop >= 1, lenip >= 1
  PROVE  /\ NewLen(lenop, lenip, start) = Hi(lenop, lenip, start) - Lo(lenop, start)
         /\ NewStart(lenop, start) = AbsA(lenop, start) - Lo(lenop, start)
         /\ PadBefore(lenop, start) = -Lo(lenop, start)
         /\ NewStart(lenop, start) >= 0
         /\ NewStart(lenop, start) + lenip <= NewLen(lenop, lenip, start)
  BY DEF NewLen, Hi, Lo, AbsA, Min, Max, NewStart, PadBefore, PadBehind, S1
\* a vector input of n entries changes the length by exactly the overhang on both sides
THEOREM LenMonotone ==
  ASSUME NEW lenop \in Nat, NEW lenip \in Nat, NEW start \in Int, lenop >= 1, lenip >= 1
  PROVE  /\ NewLen(lenop, lenip, start) >= lenop
         /\ NewLen(lenop, lenip, start) >= lenip
         /\ (start >= 0 /\ start + lenip <= lenop) => NewLen(lenop, lenip, start) = lenop
         /\ (start < 0 /\ lenop + start >= 0 /\ lenop + start + lenip <= lenop) => NewLen(lenop, lenip, start) = lenop
  BY DEF NewLen, NewStart, PadBefore, PadBehind, S1
==============================================================================
