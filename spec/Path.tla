------------------------------- MODULE Path -------------------------------
(***************************************************************************)
(* Object paths of magpylib on the exact lattice: positions in Z^3,        *)
(* orientations = integer rotation matrices (the 24 rotations of the cube).*)
(*                                                                         *)
(* A path is a record [pos |-> Seq(Vec), ori |-> Seq(Mat)] - two parallel  *)
(* sequences, exactly as BaseGeo keeps _position and _orientation, so that *)
(* "both have equal length >= 1" is a real invariant and not built in.     *)
(*                                                                         *)
(* Part 1  lattice algebra                                                 *)
(* Part 2  OPERATIONAL view: transcription of class_BaseTransform.py       *)
(*         (path_padding_param, path_padding, multi_anchor_behavior,       *)
(*         apply_move, apply_rotation) and of the BaseGeo setters          *)
(*         (pad_slice_path), one operator per function                     *)
(* Part 3  DECLARATIVE view: the documented index semantics of C09         *)
(* Part 4  compound objects: the same operations recursing into children   *)
(*         as BaseTransform.move/_rotate and the BaseGeo setters do        *)
(***************************************************************************)
EXTENDS Integers, Sequences, FiniteSets, PadArith

\* ------------------------------------------------------------ Part 1
MulMV(a, v) == <<a[1][1]*v[1] + a[1][2]*v[2] + a[1][3]*v[3],
                 a[2][1]*v[1] + a[2][2]*v[2] + a[2][3]*v[3],
                 a[3][1]*v[1] + a[3][2]*v[2] + a[3][3]*v[3]>>
MulMM(a, b) == [i \in 1..3 |-> [j \in 1..3 |-> a[i][1]*b[1][j] + a[i][2]*b[2][j] + a[i][3]*b[3][j]]]
Tr(a) == [i \in 1..3 |-> [j \in 1..3 |-> a[j][i]]]
IdM == <<<<1,0,0>>, <<0,1,0>>, <<0,0,1>>>>
Zero3 == <<0,0,0>>
Add3(a, b) == <<a[1]+b[1], a[2]+b[2], a[3]+b[3]>>
Sub3(a, b) == <<a[1]-b[1], a[2]-b[2], a[3]-b[3]>>
Clamp(x, lo, hi) == IF x < lo THEN lo ELSE IF x > hi THEN hi ELSE x
Det3(m) == m[1][1]*(m[2][2]*m[3][3] - m[2][3]*m[3][2]) - m[1][2]*(m[2][1]*m[3][3] - m[2][3]*m[3][1])
           + m[1][3]*(m[2][1]*m[3][2] - m[2][2]*m[3][1])
\* the rotation group of the cube: signed permutation matrices of determinant +1
SignedPerm == {m \in [1..3 -> [1..3 -> {-1, 0, 1}]] :
                 /\ \A i \in 1..3 : Cardinality({j \in 1..3 : m[i][j] # 0}) = 1
                 /\ \A j \in 1..3 : Cardinality({i \in 1..3 : m[i][j] # 0}) = 1}
Rots == {m \in SignedPerm : Det3(m) = 1}
Rx90 == <<<<1,0,0>>, <<0,0,-1>>, <<0,1,0>>>>
Ry90 == <<<<0,0,1>>, <<0,1,0>>, <<-1,0,0>>>>
Rz90 == <<<<0,-1,0>>, <<1,0,0>>, <<0,0,1>>>>

\* JSON arrays arrive as tuples; normalise to the function form used above
V3(x) == <<x[1], x[2], x[3]>>
M3(x) == [i \in 1..3 |-> [j \in 1..3 |-> x[i][j]]]

\* ------------------------------------------------------------ Part 2
\* start == [auto |-> BOOLEAN, v |-> Int]
\* input == [scalar |-> BOOLEAN, v |-> Seq(..)]      (scalar input: Len(v) = 1)
\* anchor == [kind |-> "none" | "vec", scalar |-> BOOLEAN, v |-> Seq(Vec)]
AutoStart == [auto |-> TRUE, v |-> 0]
IntStart(k) == [auto |-> FALSE, v |-> k]
NoAnchor == [kind |-> "none", scalar |-> TRUE, v |-> <<>>]

\* path_padding_param(scalar_input, lenop, lenip, start)
PadP(scalar, lenop, lenip, start0) ==
  LET s0 == IF start0.auto THEN (IF scalar THEN 0 ELSE lenop) ELSE start0.v
  IN [before |-> PadBefore(lenop, s0), behind |-> PadBehind(lenop, lenip, s0), start |-> NewStart(lenop, s0)]

\* np.pad(.., "edge")
EdgePad(s, before, behind) == [i \in 1..(before + Len(s) + behind) |->
     IF i <= before THEN s[1] ELSE IF i <= before + Len(s) THEN s[i - before] ELSE s[Len(s)]]

\* pad_slice_path(path1, path2): fit s to length n (edge-pad at the end / keep the END)
PadSlice(n, s) == IF n > Len(s) THEN EdgePad(s, 0, n - Len(s))
                  ELSE IF n < Len(s) THEN SubSeq(s, Len(s) - n + 1, Len(s)) ELSE s

At(inp, k) == IF inp.scalar THEN inp.v[1] ELSE inp.v[k]       \* k = 1-based offset inside the window

\* path_padding(inpath, start, target): padded pos/ori, window [a, b) in 0-based indices
Window(path, inp, start) ==
  LET lenip == IF inp.scalar THEN 1 ELSE Len(inp.v)
      pp == PadP(inp.scalar, Len(path.pos), lenip, start)
      ppos == EdgePad(path.pos, pp.before, pp.behind)
      pori == EdgePad(path.ori, pp.before, pp.behind)
  IN [pos |-> ppos, ori |-> pori, padded |-> pp.before + pp.behind > 0,
      a |-> pp.start, b |-> (IF inp.scalar THEN Len(ppos) ELSE pp.start + lenip)]

\* apply_move(target, displacement, start)
MoveLeaf(path, disp, start) ==
  LET w == Window(path, disp, start) IN
  [pos |-> [i \in 1..Len(w.pos) |-> IF i - 1 >= w.a /\ i - 1 < w.b THEN Add3(w.pos[i], At(disp, i - w.a)) ELSE w.pos[i]],
   ori |-> (IF w.padded THEN w.ori ELSE path.ori)]

\* multi_anchor_behavior(anchor, inrotQ, rotation): the shorter of rotation / anchor input is edge-padded
MultiAnchor(rot, anc) ==
  LET lr == IF rot.scalar THEN 0 ELSE Len(rot.v)
      la == IF anc.scalar THEN 0 ELSE Len(anc.v)
  IN IF lr > la THEN [rot |-> rot, anc |-> [kind |-> "vec", scalar |-> FALSE, v |-> EdgePad(anc.v, 0, lr - Len(anc.v))]]
     ELSE IF lr < la THEN [rot |-> [scalar |-> FALSE, v |-> EdgePad(rot.v, 0, la - Len(rot.v))], anc |-> anc]
     ELSE [rot |-> rot, anc |-> anc]

\* apply_rotation(target, rotation, anchor, start, parent_path); ppos = [kind |-> "none"] or [kind |-> "some", v |-> Seq(Vec)]
NoParent == [kind |-> "none", v |-> <<>>]
RotLeaf(path, rot0, anc0, start, ppos) ==
  LET ma == IF anc0.kind = "none" THEN [rot |-> rot0, anc |-> anc0] ELSE MultiAnchor(rot0, anc0)
      rot == ma.rot
      anc == ma.anc
      w == Window(path, rot, start)
      lenA == w.b - w.a
      pp2 == IF ppos.kind = "none" THEN [before |-> 0, behind |-> 0, start |-> 0]
             ELSE PadP(rot.scalar, Len(ppos.v), lenA, start)
      ppad == IF ppos.kind = "none" THEN <<>> ELSE EdgePad(ppos.v, pp2.before, pp2.behind)
      hasAnchor == anc.kind # "none" \/ ppos.kind # "none"
      AnchorAt(k) == IF anc.kind # "none" THEN (IF anc.scalar THEN anc.v[1] ELSE anc.v[k]) ELSE ppad[pp2.start + k]
  IN [pos |-> [i \in 1..Len(w.pos) |-> IF i - 1 >= w.a /\ i - 1 < w.b /\ hasAnchor
                   THEN LET k == i - w.a IN Add3(MulMV(At(rot, k), Sub3(w.pos[i], AnchorAt(k))), AnchorAt(k))
                   ELSE w.pos[i]],
      ori |-> [i \in 1..Len(w.ori) |-> IF i - 1 >= w.a /\ i - 1 < w.b THEN MulMM(At(rot, i - w.a), w.ori[i]) ELSE w.ori[i]]]

\* BaseGeo.position / .orientation setters (the other path is edge-padded or end-sliced)
SetPosLeaf(path, np) == [pos |-> np, ori |-> PadSlice(Len(np), path.ori)]
SetOriLeaf(path, nr) == [pos |-> PadSlice(Len(nr), path.pos), ori |-> nr]
ResetLeaf(path) == [pos |-> <<Zero3>>, ori |-> <<IdM>>]

PathOK(path) == Len(path.pos) = Len(path.ori) /\ Len(path.pos) >= 1

\* ------------------------------------------------------------ Part 3
(***************************************************************************)
(* Documented semantics (C09), stated without the padding bookkeeping:     *)
(* the old path occupies absolute indices 0..lenop-1; the operation        *)
(* touches absolute indices from a (numpy convention for negative start;   *)
(* default: 0 for scalar input, lenop for vector input): a..a+n-1 for a    *)
(* vector of n, every index >= a for a scalar; the new path is the         *)
(* smallest interval covering both, and an entry outside the old path      *)
(* takes the value of the nearest edge entry.                              *)
(***************************************************************************)
AbsStart(scalar, lenop, start) ==
  LET s == IF start.auto THEN (IF scalar THEN 0 ELSE lenop) ELSE start.v IN IF s < 0 THEN lenop + s ELSE s
DeclFrame(inp, lenop, start) ==
  LET n == IF inp.scalar THEN 1 ELSE Len(inp.v)
      a == AbsStart(inp.scalar, lenop, start)
  IN [a |-> a, lo |-> Min(0, a), hi |-> Max(lenop, a + n), n |-> n]
InWin(inp, f, j) == IF inp.scalar THEN j >= f.a ELSE j >= f.a /\ j < f.a + f.n
InAt(inp, f, j) == IF inp.scalar THEN inp.v[1] ELSE inp.v[j - f.a + 1]
OldAt(s, j) == s[Clamp(j, 0, Len(s) - 1) + 1]

MoveDecl(path, disp, start) ==
  LET f == DeclFrame(disp, Len(path.pos), start) IN
  [pos |-> [i \in 1..(f.hi - f.lo) |-> LET j == i - 1 + f.lo IN
              IF InWin(disp, f, j) THEN Add3(OldAt(path.pos, j), InAt(disp, f, j)) ELSE OldAt(path.pos, j)],
   ori |-> [i \in 1..(f.hi - f.lo) |-> OldAt(path.ori, i - 1 + f.lo)]]

\* rotation: left composition g * R_old; position rotated about the anchor; the shorter of rotation
\* and per-step anchor input continues with its last entry
RotDecl(path, rot0, anc0, start) ==
  LET lr == IF rot0.scalar THEN 0 ELSE Len(rot0.v)
      la == IF anc0.kind = "none" \/ anc0.scalar THEN 0 ELSE Len(anc0.v)
      n  == Max(lr, la)
      rot == IF anc0.kind # "none" /\ la > lr THEN [scalar |-> FALSE, v |-> [k \in 1..n |-> rot0.v[Min(k, Len(rot0.v))]]] ELSE rot0
      f == DeclFrame(rot, Len(path.pos), start)
      AncAt(j) == IF anc0.scalar THEN anc0.v[1] ELSE anc0.v[Min(j - f.a + 1, Len(anc0.v))]
  IN [pos |-> [i \in 1..(f.hi - f.lo) |-> LET j == i - 1 + f.lo IN
                 IF InWin(rot, f, j) /\ anc0.kind # "none"
                 THEN Add3(MulMV(InAt(rot, f, j), Sub3(OldAt(path.pos, j), AncAt(j))), AncAt(j))
                 ELSE OldAt(path.pos, j)],
      ori |-> [i \in 1..(f.hi - f.lo) |-> LET j == i - 1 + f.lo IN
                 IF InWin(rot, f, j) THEN MulMM(InAt(rot, f, j), OldAt(path.ori, j)) ELSE OldAt(path.ori, j)]]

\* ------------------------------------------------------------ Part 4
(***************************************************************************)
(* Compound state st = [kids |-> [obj -> Seq(obj)], path |-> [obj -> path]]*)
(***************************************************************************)
RECURSIVE MoveC(_, _, _, _)
RECURSIVE MoveKids(_, _, _, _, _)
MoveKids(st, kids, k, disp, start) == IF k > Len(kids) THEN st
                                      ELSE MoveKids(MoveC(st, kids[k], disp, start), kids, k + 1, disp, start)
\* BaseTransform.move: children first, then the object itself
MoveC(st, o, disp, start) ==
  LET st1 == MoveKids(st, st.kids[o], 1, disp, start) IN
  [st1 EXCEPT !.path[o] = MoveLeaf(st1.path[o], disp, start)]

RECURSIVE RotC(_, _, _, _, _, _)
RECURSIVE RotKids(_, _, _, _, _, _, _)
RotKids(st, kids, k, rot, anc, start, ppth) == IF k > Len(kids) THEN st
      ELSE RotKids(RotC(st, kids[k], rot, anc, start, ppth), kids, k + 1, rot, anc, start, ppth)
\* BaseTransform._rotate: children rotate about the TOP collection's position path (parent_path)
RotC(st, o, rot, anc, start, ppos) ==
  LET ppth == IF ppos.kind = "none" THEN [kind |-> "some", v |-> st.path[o].pos] ELSE ppos
      st1 == IF Len(st.kids[o]) = 0 THEN st ELSE RotKids(st, st.kids[o], 1, rot, anc, start, ppth)
  IN [st1 EXCEPT !.path[o] = RotLeaf(st1.path[o], rot, anc, start, ppos)]

\* position setter: children keep their offset from the (pad/sliced) old collection position
RECURSIVE SetPosC(_, _, _)
RECURSIVE SetPosKids(_, _, _, _, _)
SetPosC(st, o, np) ==
  LET oldpos == st.path[o].pos
      st1 == [st EXCEPT !.path[o] = SetPosLeaf(st.path[o], np)]
  IN SetPosKids(st1, st.kids[o], 1, np, PadSlice(Len(np), oldpos))
SetPosKids(st, kids, k, np, oldp) == IF k > Len(kids) THEN st ELSE
  LET c == kids[k]
      cpos == PadSlice(Len(np), st.path[c].pos)
      newc == [i \in 1..Len(np) |-> Add3(np[i], Sub3(cpos[i], oldp[i]))]
  IN SetPosKids(SetPosC(st, c, newc), kids, k + 1, np, oldp)

\* orientation setter: children are rotated by new * old^-1 about the collection position
RECURSIVE SetOriC(_, _, _)
RECURSIVE SetOriKids(_, _, _, _, _)
SetOriC(st, o, nr) ==
  LET old == st.path[o]
      st1 == [st EXCEPT !.path[o] = SetOriLeaf(old, nr)]
      newpos == st1.path[o].pos
      oldpad == PadSlice(Len(nr), old.ori)
      delta == [i \in 1..Len(nr) |-> MulMM(nr[i], Tr(oldpad[i]))]
  IN SetOriKids(st1, st.kids[o], 1, delta, newpos)
SetOriKids(st, kids, k, delta, newpos) == IF k > Len(kids) THEN st ELSE
  LET c == kids[k]
      st1 == SetPosC(st, c, PadSlice(Len(newpos), st.path[c].pos))
      rot == [scalar |-> Len(delta) = 1, v |-> delta]
      anc == [kind |-> "vec", scalar |-> FALSE, v |-> newpos]
      st2 == RotC(st1, c, rot, anc, IntStart(0), NoParent)
  IN SetOriKids(st2, kids, k + 1, delta, newpos)

ResetC(st, o) == SetOriC(SetPosC(st, o, <<Zero3>>), o, <<IdM>>)

\* dispatch on a call record: [op, o, inp, anc, start, np]
ApplyPath(st, c) ==
  CASE c.op = "move"   -> MoveC(st, c.o, c.inp, c.start)
    [] c.op = "rotate" -> RotC(st, c.o, c.inp, c.anc, c.start, NoParent)
    [] c.op = "setpos" -> SetPosC(st, c.o, c.inp.v)
    [] c.op = "setori" -> SetOriC(st, c.o, c.inp.v)
    [] c.op = "reset"  -> ResetC(st, c.o)

\* descendants and relative poses (C10)
RECURSIVE DescOf(_, _)
RECURSIVE DescSeq(_, _, _)
DescSeq(st, kids, k) == IF k > Len(kids) THEN {} ELSE {kids[k]} \cup DescOf(st, kids[k]) \cup DescSeq(st, kids, k + 1)
DescOf(st, o) == DescSeq(st, st.kids[o], 1)
Rel(st, c, d, i) == [p |-> MulMV(Tr(st.path[c].ori[i]), Sub3(st.path[d].pos[i], st.path[c].pos[i])),
                     r |-> MulMM(Tr(st.path[c].ori[i]), st.path[d].ori[i])]
RelPath(st, c, d) == [i \in 1..Len(st.path[c].pos) |-> Rel(st, c, d, i)]
SubLen(st, c) == \A d \in DescOf(st, c) : Len(st.path[d].pos) = Len(st.path[c].pos) /\ PathOK(st.path[d])
\* the new relative-pose path is the old one edge-padded (pb entries in front, the rest behind) or end-sliced
IsPadSliceImage(new, old) ==
   LET n == Len(old)  m == Len(new) IN
   IF m >= n THEN \E pb \in 0..(m - n) : \A i \in 1..m : new[i] = old[Clamp(i - pb, 1, n)]
   ELSE \A i \in 1..m : new[i] = old[i + (n - m)]
\* C10 for one step on target t
RelPoseKept(pre, post, t) ==
   SubLen(pre, t) =>
     /\ SubLen(post, t)
     /\ \A c \in {t} \cup {x \in DescOf(pre, t) : Len(pre.kids[x]) > 0} : \A d \in DescOf(pre, c) :
           IsPadSliceImage(RelPath(post, c, d), RelPath(pre, c, d))
FrameKept(pre, post, t) == \A e \in (DOMAIN pre.path) \ ({t} \cup DescOf(pre, t)) : post.path[e] = pre.path[e]
=============================================================================
