------------------------------ MODULE Physics ------------------------------
(***************************************************************************)
(* Exact lattice geometry of magpylib sources (library of operators, no    *)
(* variables).  All lengths and coordinates are DOUBLED integers           *)
(* (x2 = 2*x in lattice units), so that the half-lattice - and with it     *)
(* every face, edge, corner, rim and axis point of a lattice body - is     *)
(* represented exactly.  Orientations are the 24 rotations of the cube.    *)
(*                                                                         *)
(* Part 1  lattice algebra                                                 *)
(* Part 2  source records, classification of a local point against a body  *)
(*         ("in" / "on" / "out") and the name of the boundary stratum      *)
(* Part 3  pose, expected polarization J (property C02)                    *)
(* Part 4  special sets of every geometry and the DOCUMENTED singular      *)
(*         points (property C15); far points m * 10^k                      *)
(* Part 5  tolerances (DESIGN.md section 3.4)                              *)
(*                                                                         *)
(* Source records (field cls = the magpylib class name):                   *)
(*   [cls |-> "Cuboid", dim2 |-> <<a2,b2,c2>>]            dimension * 2    *)
(*   [cls |-> "Cylinder", d2, h2]                 diameter * 2, height * 2 *)
(*   [cls |-> "Sphere", d2]                                                *)
(*   [cls |-> "CylinderSegment", r12, r22, h2, p1, p2]   radii * 2,        *)
(*        height * 2, section angles in multiples of 45 degrees, p1 < p2,  *)
(*        p2 - p1 <= 8                                                     *)
(*   [cls |-> "Tetrahedron", v2 |-> <<4 vertices * 2>>]                    *)
(*   [cls |-> "TriangularMesh", f2 |-> <<faces, each <<3 vertices * 2>> >>,*)
(*        mk |-> "convex" | "axial"]   convex lattice polyhedron, or a     *)
(*        polyhedron all of whose faces lie in lattice coordinate planes   *)
(*        (boxes and unions of boxes)                                      *)
(*   [cls |-> "Triangle", v2 |-> <<3 vertices * 2>>]                       *)
(*   [cls |-> "Circle", d2]     [cls |-> "Polyline", v2 |-> <<vertices>>]  *)
(*   [cls |-> "Dipole"]         [cls |-> "CustomSource"]                   *)
(***************************************************************************)
EXTENDS Integers, Sequences, FiniteSets, Quant

\* ------------------------------------------------------------ Part 1: lattice algebra
Sgn(x) == IF x > 0 THEN 1 ELSE IF x < 0 THEN -1 ELSE 0
SetOf(f) == {f[i] : i \in DOMAIN f}
Zero3 == <<0, 0, 0>>
Add3(a, b) == <<a[1] + b[1], a[2] + b[2], a[3] + b[3]>>
Sub3(a, b) == <<a[1] - b[1], a[2] - b[2], a[3] - b[3]>>
Neg3(a) == <<-a[1], -a[2], -a[3]>>
Scl3(k, a) == <<k * a[1], k * a[2], k * a[3]>>
Dot3(a, b) == a[1] * b[1] + a[2] * b[2] + a[3] * b[3]
Cross3(a, b) == <<a[2] * b[3] - a[3] * b[2], a[3] * b[1] - a[1] * b[3], a[1] * b[2] - a[2] * b[1]>>
Triple(a, b, c) == Dot3(a, Cross3(b, c))                        \* det [a; b; c]
V3(x) == <<x[1], x[2], x[3]>>
MulMV(m, v) == <<Dot3(m[1], v), Dot3(m[2], v), Dot3(m[3], v)>>
MulMM(a, b) == [i \in 1..3 |-> [j \in 1..3 |-> a[i][1] * b[1][j] + a[i][2] * b[2][j] + a[i][3] * b[3][j]]]
Tr(m) == <<<<m[1][1], m[2][1], m[3][1]>>, <<m[1][2], m[2][2], m[3][2]>>, <<m[1][3], m[2][3], m[3][3]>>>>
M3(x) == [i \in 1..3 |-> [j \in 1..3 |-> x[i][j]]]
IdM == <<<<1, 0, 0>>, <<0, 1, 0>>, <<0, 0, 1>>>>
DetM(m) == Triple(m[1], m[2], m[3])
\* the rotation group of the cube: signed permutation matrices of determinant +1
SignedPerms == {m \in [1..3 -> [1..3 -> {-1, 0, 1}]] :
                  /\ \A i \in 1..3 : Cardinality({j \in 1..3 : m[i][j] # 0}) = 1
                  /\ \A j \in 1..3 : Cardinality({i \in 1..3 : m[i][j] # 0}) = 1}
Rots == {m \in SignedPerms : DetM(m) = 1}
IsRot(m) == M3(m) \in Rots
\* half-lattice box (doubled coordinates) lo..hi per axis
Box(lo, hi) == {<<x, y, z>> : x \in lo[1]..hi[1], y \in lo[2]..hi[2], z \in lo[3]..hi[3]}
Cube(n) == Box(<<-n, -n, -n>>, <<n, n, n>>)

\* ------------------------------------------------------------ Part 2: classification
Magnets == {"Cuboid", "Cylinder", "Sphere", "CylinderSegment", "Tetrahedron", "TriangularMesh"}
NonMagnets == {"Circle", "Polyline", "Dipole", "Triangle", "CustomSource"}
\* classes whose field is assembled from charged triangles (vertices are singular points of the formula)
TriangleBased == {"Triangle", "Tetrahedron", "TriangularMesh"}
\* classes that honour the in_out argument (field_wrap_BH.py: "in_out has an effect only for ... Tetrahedron and TriangularMesh")
InOutClasses == {"Tetrahedron", "TriangularMesh"}

\* class of a quantity q that is negative inside, zero on the surface, positive outside
Cls(q) == IF q < 0 THEN "in" ELSE IF q = 0 THEN "on" ELSE "out"
\* intersection of closed regions: out dominates, then on, else in
Comb(S) == IF "out" \in S THEN "out" ELSE IF "on" \in S THEN "on" ELSE "in"
NOn(t) == Cardinality({i \in DOMAIN t : t[i] = "on"})
HasOut(t) == \E i \in DOMAIN t : t[i] = "out"

\* --- Cuboid: |x_i| <= dim_i / 2  <=>  2 |x2_i| <= dim2_i
CuboidT(b, x) == <<Cls(2 * Abs(x[1]) - b.dim2[1]), Cls(2 * Abs(x[2]) - b.dim2[2]), Cls(2 * Abs(x[3]) - b.dim2[3])>>
\* --- Cylinder: r <= d/2 <=> 4 (x2^2 + y2^2) <= d2^2 ; |z| <= h/2 <=> 2 |z2| <= h2
R2(x) == x[1] * x[1] + x[2] * x[2]
CylT(b, x) == [hull |-> Cls(4 * R2(x) - b.d2 * b.d2), base |-> Cls(2 * Abs(x[3]) - b.h2)]
\* --- Sphere
SphereC(b, x) == Cls(4 * Dot3(x, x) - b.d2 * b.d2)
\* --- CylinderSegment: directions at multiples of 45 degrees as (unnormalised) integer vectors
Dir(k) == LET m == k % 8 IN
          CASE m = 0 -> <<1, 0>> [] m = 1 -> <<1, 1>> [] m = 2 -> <<0, 1>> [] m = 3 -> <<-1, 1>>
            [] m = 4 -> <<-1, 0>> [] m = 5 -> <<-1, -1>> [] m = 6 -> <<0, -1>> [] m = 7 -> <<1, -1>>
Cross2(a, b) == a[1] * b[2] - a[2] * b[1]
Dot2(a, b) == a[1] * b[1] + a[2] * b[2]
OnRay(v, k) == Cross2(Dir(k), v) = 0 /\ Dot2(Dir(k), v) > 0
InWedge(v, k) == Cross2(Dir(k), v) > 0 /\ Cross2(v, Dir(k + 1)) > 0       \* strictly between ray k and ray k+1
\* angular class of v = (x, y) relative to the sector from direction k1 counter-clockwise to k2 (0 < k2-k1 <= 8)
Ang(v, k1, k2) ==
   IF k2 - k1 = 8 THEN "in"                                   \* full ring: no angular boundary at all
   ELSE IF v = <<0, 0>> THEN "on"                             \* the axis lies on both limiting half-planes
   ELSE IF OnRay(v, k1) \/ OnRay(v, k2) THEN "on"
   ELSE IF \E k \in k1..(k2 - 1) : InWedge(v, k) THEN "in"
   ELSE IF \E k \in (k1 + 1)..(k2 - 1) : OnRay(v, k) THEN "in"
   ELSE "out"
\* r1 <= r <= r2 <=> r12^2 <= x2^2 + y2^2 <= r22^2 ; r1 = 0 is no constraint
CylSegT(b, x) == [r2 |-> Cls(R2(x) - b.r22 * b.r22),
                  r1 |-> IF b.r12 = 0 THEN "in" ELSE Cls(b.r12 * b.r12 - R2(x)),
                  phi |-> Ang(<<x[1], x[2]>>, b.p1, b.p2),
                  z |-> Cls(2 * Abs(x[3]) - b.h2)]
\* --- Tetrahedron: signs of the four sub-volumes relative to the total volume
TetraVol6(v) == Triple(Sub3(v[2], v[1]), Sub3(v[3], v[1]), Sub3(v[4], v[1]))
TetraT(b, x) == LET v == b.v2
                    s == Sgn(TetraVol6(v))
                IN <<Cls(-s * Triple(Sub3(v[2], x), Sub3(v[3], x), Sub3(v[4], x))),
                     Cls(-s * Triple(Sub3(x, v[1]), Sub3(v[3], v[1]), Sub3(v[4], v[1]))),
                     Cls(-s * Triple(Sub3(v[2], v[1]), Sub3(x, v[1]), Sub3(v[4], v[1]))),
                     Cls(-s * Triple(Sub3(v[2], v[1]), Sub3(v[3], v[1]), Sub3(x, v[1])))>>
\* --- TriangularMesh
\* side of x relative to the oriented plane of face f = <<a, b, c>> (normal (b-a) x (c-a)): > 0 in front
Side(f, x) == Triple(Sub3(x, f[1]), Sub3(f[2], f[1]), Sub3(f[3], f[1]))
FaceNormal(f) == Cross3(Sub3(f[2], f[1]), Sub3(f[3], f[1]))
DirEdges(f2) == UNION {{<<i, 1>>, <<i, 2>>, <<i, 3>>} : i \in DOMAIN f2}
EdgeOf(f2, e) == LET f == f2[e[1]] IN <<f[e[2]], f[(e[2] % 3) + 1]>>
MeshVerts(f2) == UNION {SetOf(f2[i]) : i \in DOMAIN f2}
\* closed and consistently oriented: every directed edge occurs once and its reverse occurs once
MeshClosed(f2) == \A e \in DirEdges(f2) :
                     LET ab == EdgeOf(f2, e) IN
                     /\ ab[1] # ab[2]
                     /\ Cardinality({g \in DirEdges(f2) : EdgeOf(f2, g) = ab}) = 1
                     /\ Cardinality({g \in DirEdges(f2) : EdgeOf(f2, g) = <<ab[2], ab[1]>>}) = 1
\* six times the signed volume (divergence theorem); positive for outward-pointing faces
MeshVol6(f2) == LET RECURSIVE S(_)
                    S(i) == IF i = 0 THEN 0 ELSE S(i - 1) + Triple(f2[i][1], f2[i][2], f2[i][3])
                IN S(Len(f2))
\* convex: all vertices lie behind (or in) every face plane; then the body is the intersection of the half-spaces
MeshConvexOK(f2) == /\ MeshClosed(f2) /\ MeshVol6(f2) > 0
                    /\ \A i \in DOMAIN f2 : FaceNormal(f2[i]) # Zero3 /\ \A v \in MeshVerts(f2) : Side(f2[i], v) <= 0
MeshConvexC(f2, x) == Comb({Cls(Side(f2[i], x)) : i \in DOMAIN f2})
\* axial: every face lies in a coordinate plane of the doubled lattice
AxisOfFace(f) == LET n == FaceNormal(f) IN
                 IF n[2] = 0 /\ n[3] = 0 /\ n[1] # 0 THEN 1
                 ELSE IF n[1] = 0 /\ n[3] = 0 /\ n[2] # 0 THEN 2
                 ELSE IF n[1] = 0 /\ n[2] = 0 /\ n[3] # 0 THEN 3 ELSE 0
MeshAxialOK(f2) == MeshClosed(f2) /\ MeshVol6(f2) > 0 /\ \A i \in DOMAIN f2 : AxisOfFace(f2[i]) # 0
\* Parity of crossings of the ray from q in direction +x with the faces normal to x.  q is given in
\* QUADRUPLED coordinates and is odd in every coordinate, the face vertices are even: the ray meets no vertex
\* and no lattice edge; it can only run through a diagonal shared by two coplanar triangles of one face,
\* which is counted with weight 1 for each of the two (weights are doubled: 2 = interior hit).
\* Prep(b) precomputes, once per body, the faces normal to x projected on the yz plane (field xf) and the
\* bounding box (lo, hi); Classify expects a prepared body for axial meshes.
Orient2(a, b, c) == (b[1] - a[1]) * (c[2] - a[2]) - (b[2] - a[2]) * (c[1] - a[1])
XFace(f) == [px |-> 2 * f[1][1], a |-> <<2 * f[1][2], 2 * f[1][3]>>, b |-> <<2 * f[2][2], 2 * f[2][3]>>, c |-> <<2 * f[3][2], 2 * f[3][3]>>]
XFaces(f2) == LET sel == SelectSeq(f2, LAMBDA f : AxisOfFace(f) = 1) IN [i \in 1..Len(sel) |-> XFace(sel[i])] \o <<>>
MinOf(S) == CHOOSE m \in S : \A k \in S : m <= k
MaxOf(S) == CHOOSE m \in S : \A k \in S : m >= k
Prep(b) == IF b.cls = "TriangularMesh" /\ b.mk = "axial"
           THEN LET V == MeshVerts(b.f2) IN
                [cls |-> b.cls, f2 |-> b.f2, mk |-> b.mk, xf |-> XFaces(b.f2),
                 lo |-> <<MinOf({v[1] : v \in V}), MinOf({v[2] : v \in V}), MinOf({v[3] : v \in V})>>,
                 hi |-> <<MaxOf({v[1] : v \in V}), MaxOf({v[2] : v \in V}), MaxOf({v[3] : v \in V})>>]
           ELSE b
W3(s1, s2, s3) == IF s1 = s2 /\ s2 = s3 THEN (IF s1 # 0 THEN 2 ELSE 0)
                  ELSE IF (s1 = 0 /\ s2 = s3) \/ (s2 = 0 /\ s1 = s3) \/ (s3 = 0 /\ s1 = s2) THEN 1 ELSE 0
HitWeight(g, q) == IF g.px < q[1] THEN 0
                   ELSE LET p == <<q[2], q[3]>> IN W3(Sgn(Orient2(g.a, g.b, p)), Sgn(Orient2(g.b, g.c, p)), Sgn(Orient2(g.c, g.a, p)))
ProbeInside(xf, q) == LET RECURSIVE W(_)
                          W(i) == IF i = 0 THEN 0 ELSE W(i - 1) + HitWeight(xf[i], q)
                      IN (W(Len(xf)) \div 2) % 2 = 1
\* the eight octants around x: x is interior iff all are inside, exterior iff none is
Octants == {<<a, b, c>> : a \in {-1, 1}, b \in {-1, 1}, c \in {-1, 1}}
MeshAxialC(b, x) == IF \E i \in 1..3 : x[i] < b.lo[i] \/ x[i] > b.hi[i] THEN "out"
                    ELSE LET n == Cardinality({s \in Octants : ProbeInside(b.xf, Add3(Scl3(2, x), s))})
                         IN IF n = 8 THEN "in" ELSE IF n = 0 THEN "out" ELSE "on"
MeshOK(b) == IF b.mk = "convex" THEN MeshConvexOK(b.f2) ELSE MeshAxialOK(b.f2)
MeshC(b, x) == IF b.mk = "convex" THEN MeshConvexC(b.f2, x) ELSE MeshAxialC(b, x)

\* x on the closed segment a-b / strictly inside it / on its line outside of it
Collinear(a, b, x) == Cross3(Sub3(b, a), Sub3(x, a)) = Zero3
OnSegOpen(a, b, x) == a # b /\ Collinear(a, b, x) /\ Dot3(Sub3(x, a), Sub3(b, a)) > 0 /\ Dot3(Sub3(x, b), Sub3(a, b)) > 0
OnLineExt(a, b, x) == a # b /\ Collinear(a, b, x) /\ x # a /\ x # b /\ ~OnSegOpen(a, b, x)
TriEdges(f) == {<<f[1], f[2]>>, <<f[2], f[3]>>, <<f[3], f[1]>>}
\* x in the plane of the (non-degenerate) triangle f: strictly inside it?
InTriOpen(f, x) == LET n == FaceNormal(f) IN
                   /\ Side(f, x) = 0
                   /\ \A e \in TriEdges(f) : Dot3(Cross3(Sub3(e[2], e[1]), Sub3(x, e[1])), n) > 0

\* the premise of every law instance: the record is a well-formed lattice source
BodyOK(b) ==
  CASE b.cls = "Cuboid" -> \A i \in 1..3 : b.dim2[i] > 0
    [] b.cls = "Cylinder" -> b.d2 > 0 /\ b.h2 > 0
    [] b.cls = "Sphere" -> b.d2 >= 0
    [] b.cls = "CylinderSegment" -> 0 <= b.r12 /\ b.r12 < b.r22 /\ b.h2 > 0 /\ b.p1 < b.p2 /\ b.p2 - b.p1 <= 8
    [] b.cls = "Tetrahedron" -> Len(b.v2) = 4 /\ TetraVol6(b.v2) # 0
    [] b.cls = "TriangularMesh" -> MeshOK(b)
    [] b.cls = "Triangle" -> Len(b.v2) = 3 /\ FaceNormal(b.v2) # Zero3
    [] b.cls = "Circle" -> b.d2 >= 0
    [] b.cls = "Polyline" -> Len(b.v2) >= 2
    [] OTHER -> b.cls \in {"Dipole", "CustomSource"}

\* degenerate-but-accepted geometries: the object constructors reject vanishing sizes, the functional interface
\* (getB("Cuboid", observers, dimension=...)) and magpylib.core accept them.  A body with a vanishing size is a sheet, a
\* line or a point: it has no interior, Classify gives "on" / "out", and Sets names its rim (edge, corner, rim, ...) and
\* the extensions exactly as for a regular body.
DegenerateOK(b) ==
  CASE b.cls = "Cuboid" -> (\A i \in 1..3 : b.dim2[i] >= 0) /\ (\E i \in 1..3 : b.dim2[i] = 0)
    [] b.cls = "Cylinder" -> b.d2 >= 0 /\ b.h2 >= 0 /\ (b.d2 = 0 \/ b.h2 = 0)
    [] b.cls = "Sphere" -> b.d2 = 0
    [] b.cls = "CylinderSegment" -> /\ 0 <= b.r12 /\ b.r12 <= b.r22 /\ b.h2 >= 0 /\ b.p1 <= b.p2 /\ b.p2 - b.p1 <= 8
                                    /\ (b.r12 = b.r22 \/ b.h2 = 0 \/ b.p1 = b.p2)
    [] b.cls = "Circle" -> b.d2 = 0
    [] b.cls = "Polyline" -> Len(b.v2) = 2 /\ b.v2[1] = b.v2[2]
    [] OTHER -> FALSE

\* "in" / "on" / "out" of a local point (doubled coordinates) for a magnet body
Classify(b, x) ==
  CASE b.cls = "Cuboid" -> Comb(SetOf(CuboidT(b, x)))
    [] b.cls = "Cylinder" -> Comb(SetOf(CylT(b, x)))
    [] b.cls = "Sphere" -> SphereC(b, x)
    [] b.cls = "CylinderSegment" -> Comb(SetOf(CylSegT(b, x)))
    [] b.cls = "Tetrahedron" -> Comb(SetOf(TetraT(b, x)))
    [] b.cls = "TriangularMesh" -> MeshC(b, x)
    [] OTHER -> "out"                      \* sources without a body: every point is outside

FacesOf(b) == IF b.cls = "TriangularMesh" THEN b.f2
              ELSE IF b.cls = "Triangle" THEN <<b.v2>>
              ELSE IF b.cls = "Tetrahedron" THEN
                   LET v == b.v2 IN <<<<v[1], v[3], v[2]>>, <<v[1], v[2], v[4]>>, <<v[2], v[3], v[4]>>, <<v[1], v[4], v[3]>>>>
              ELSE <<>>
VertsOf(b) == IF b.cls \in {"Tetrahedron", "Triangle", "Polyline"} THEN SetOf(b.v2)
              ELSE IF b.cls = "TriangularMesh" THEN MeshVerts(b.f2) ELSE {}
\* the faces whose plane contains x (a point on the line of an edge lies in the plane of its face)
Coplanar(b, x) == LET F == FacesOf(b) IN {F[i] : i \in {j \in DOMAIN F : Side(F[j], x) = 0}}
OnSomeEdge(b, x) == \E f \in Coplanar(b, x) : \E e \in TriEdges(f) : OnSegOpen(e[1], e[2], x)
OnSomeEdgeExt(b, x) == \E f \in Coplanar(b, x) : \E e \in TriEdges(f) : OnLineExt(e[1], e[2], x)

\* name of the boundary stratum of a point with Classify = "on" ("-" for points that are not on the boundary)
SurfaceC(b, x, c) ==
  IF c # "on" THEN "-"
  ELSE CASE b.cls = "Cuboid" -> LET n == NOn(CuboidT(b, x)) IN IF n = 1 THEN "face" ELSE IF n = 2 THEN "edge" ELSE "corner"
         [] b.cls = "Cylinder" -> LET t == CylT(b, x) IN
                                  IF t.hull = "on" /\ t.base = "on" THEN "rim" ELSE IF t.hull = "on" THEN "hull" ELSE "base"
         [] b.cls = "Sphere" -> "surface"
         [] b.cls = "CylinderSegment" ->
                LET t == CylSegT(b, x) n == NOn(t) IN
                IF x[1] = 0 /\ x[2] = 0 THEN "axis"
                ELSE IF n >= 3 THEN "corner" ELSE IF n = 2 THEN "edge"
                ELSE IF t.phi = "on" THEN "phi-plane" ELSE IF t.z = "on" THEN "z-face" ELSE "r-face"
         [] b.cls = "Tetrahedron" -> LET n == NOn(TetraT(b, x)) IN IF n = 1 THEN "face" ELSE IF n = 2 THEN "edge" ELSE "vertex"
         [] b.cls = "TriangularMesh" -> IF x \in MeshVerts(b.f2) THEN "vertex" ELSE IF OnSomeEdge(b, x) THEN "edge" ELSE "face"
         [] OTHER -> "-"
Surface(b, x) == SurfaceC(b, x, Classify(b, x))

\* ------------------------------------------------------------ Part 3: pose and the J law
\* pose = [R |-> rotation matrix, p2 |-> doubled position]; o2 = doubled global observer
Local(pose, o2) == MulMV(Tr(pose.R), Sub3(o2, pose.p2))
Global(pose, x) == Add3(MulMV(pose.R, x), pose.p2)
PoseOK(pose) == IsRot(pose.R)
\* polarization of the body in the observer (global) frame
JIn(pose, pol) == MulMV(pose.R, pol)
\* the set of values of J (as multiples of the unit polarization) the property allows at a point.
\* inout = "auto": by the exact position; on the surface both values are acceptable.
\* inout = "inside" / "outside" is only used truthfully (premise InOutTruthful).
JAllowed(b, pose, pol, o2, inout) ==
  IF b.cls \notin Magnets THEN {Zero3}
  ELSE LET c == Classify(b, Local(pose, o2)) IN
       IF c = "in" THEN {JIn(pose, pol)} ELSE IF c = "out" THEN {Zero3} ELSE {JIn(pose, pol), Zero3}
InOutTruthful(b, pose, o2, inout) ==
  \/ inout = "auto"
  \/ inout = "inside" /\ Classify(b, Local(pose, o2)) = "in"
  \/ inout = "outside" /\ Classify(b, Local(pose, o2)) = "out"
\* an integer k as q12 observation with scale 1 (see Quant.tla)
QInt(k) == <<k * 1000000, 0>>
QVec(v) == <<QInt(v[1]), QInt(v[2]), QInt(v[3])>>

\* ------------------------------------------------------------ Part 4: special sets, singular points
\* Names of all special sets a local point belongs to.  The property C15 quantifies over points exactly on
\* (and a few ulp beside) each of them.
IfS(c, name) == IF c THEN {name} ELSE {}
CuboidSets(b, x) == LET t == CuboidT(b, x) n == NOn(t) o == HasOut(t) IN
     IfS(n = 3, "corner") \cup IfS(n = 2 /\ ~o, "edge") \cup IfS(n = 2 /\ o, "edge-ext")
     \cup IfS(n = 1 /\ ~o, "face") \cup IfS(n = 1 /\ o, "face-ext")
     \cup IfS(x = Zero3, "centre") \cup IfS(x # Zero3 /\ \E i \in 1..3 : x[i] = 0, "midplane")
\* r / r0 = 0.05 is the switch to the series expansion in magnet_cylinder_diametral_Hfield: 40 |xy2| = d2
CylSets(b, x) == LET t == CylT(b, x) IN
     IfS(x[1] = 0 /\ x[2] = 0, "axis") \cup IfS(x = Zero3, "centre")
     \cup IfS(t.hull = "on" /\ t.base = "in", "hull") \cup IfS(t.hull = "on" /\ t.base = "on", "rim")
     \cup IfS(t.hull = "on" /\ t.base = "out", "hull-ext")
     \cup IfS(t.base = "on" /\ t.hull = "in", "base") \cup IfS(t.base = "on" /\ t.hull = "out", "base-ext")
     \cup IfS(1600 * R2(x) = b.d2 * b.d2, "r005") \cup IfS(x[3] = 0 /\ x # Zero3, "midplane")
SphereSets(b, x) == IfS(SphereC(b, x) = "on", "surface") \cup IfS(x = Zero3, "centre")
CylSegSets(b, x) == LET t == CylSegT(b, x) v == <<x[1], x[2]>> o == HasOut(t) n == NOn(t)
                        full == b.p2 - b.p1 = 8 IN
     IfS(v = <<0, 0>>, "axis")
     \cup IfS(t.r1 = "on" /\ ~o, "r1") \cup IfS(t.r2 = "on" /\ ~o, "r2") \cup IfS(t.z = "on" /\ ~o, "z-face")
     \cup IfS(~full /\ v # <<0, 0>> /\ OnRay(v, b.p1) /\ ~o, "phi1") \cup IfS(~full /\ v # <<0, 0>> /\ OnRay(v, b.p2) /\ ~o, "phi2")
     \cup IfS(n = 2 /\ ~o /\ v # <<0, 0>>, "edge") \cup IfS(n >= 3 /\ ~o /\ v # <<0, 0>>, "corner")
     \cup IfS(n >= 1 /\ o, "ext")
     \cup IfS(x[2] = 0 /\ x[1] < 0, "negx")                   \* the branch cut of arctan2
     \cup IfS(x[3] = 0 /\ v # <<0, 0>>, "midplane")
CircleSets(b, x) == IfS(x[3] = 0 /\ 4 * R2(x) = b.d2 * b.d2, "wire") \cup IfS(x[1] = 0 /\ x[2] = 0, "axis")
     \cup IfS(x = Zero3, "centre") \cup IfS(x[3] = 0 /\ 4 * R2(x) # b.d2 * b.d2, "plane")
     \cup IfS(x[3] # 0 /\ 4 * R2(x) = b.d2 * b.d2, "hull")
Segments(v) == {<<v[i], v[i + 1]>> : i \in 1..(Len(v) - 1)}
PolylineSets(b, x) == LET S == Segments(b.v2) IN
     IfS(x \in SetOf(b.v2), "vertex") \cup IfS(\E s \in S : OnSegOpen(s[1], s[2], x), "wire")
     \cup IfS(\E s \in S : OnLineExt(s[1], s[2], x), "ext")
HasZeroSegment(b) == b.cls = "Polyline" /\ \E s \in Segments(b.v2) : s[1] = s[2]
TriSets(b, x) == LET C == Coplanar(b, x) IN
     IF C = {} THEN {} ELSE
     IfS(x \in VertsOf(b), "vertex")
     \cup IfS(\E f \in C : \E e \in TriEdges(f) : OnSegOpen(e[1], e[2], x), "edge")
     \cup IfS(\E f \in C : \E e \in TriEdges(f) : OnLineExt(e[1], e[2], x), "edge-ext")
     \cup IfS(\E f \in C : InTriOpen(f, x), "face")
     \cup IfS(\E f \in C : ~InTriOpen(f, x) /\ \A e \in TriEdges(f) : ~Collinear(e[1], e[2], x), "plane")
Sets(b, x) ==
  CASE b.cls = "Cuboid" -> CuboidSets(b, x)
    [] b.cls = "Cylinder" -> CylSets(b, x)
    [] b.cls = "Sphere" -> SphereSets(b, x)
    [] b.cls = "CylinderSegment" -> CylSegSets(b, x)
    [] b.cls = "Circle" -> CircleSets(b, x)
    [] b.cls = "Polyline" -> PolylineSets(b, x)
    [] b.cls \in TriangleBased -> TriSets(b, x)
    [] b.cls = "Dipole" -> IfS(x = Zero3, "position")
    [] OTHER -> {}
\* the special sets that a scan of a class must reach (coverage obligation of the harness, not a verdict)
SpecialNames(cls) ==
  CASE cls = "Cuboid" -> {"corner", "edge", "edge-ext", "face", "face-ext", "centre", "midplane"}
    [] cls = "Cylinder" -> {"axis", "centre", "hull", "rim", "hull-ext", "base", "base-ext", "r005", "midplane"}
    [] cls = "Sphere" -> {"surface", "centre"}
    [] cls = "CylinderSegment" -> {"axis", "r1", "r2", "z-face", "phi1", "phi2", "edge", "corner", "ext", "negx", "midplane"}
    [] cls = "Circle" -> {"wire", "axis", "centre", "plane", "hull"}
    [] cls = "Polyline" -> {"vertex", "wire", "ext"}
    [] cls \in TriangleBased -> {"vertex", "edge", "edge-ext", "face", "plane"}
    [] cls = "Dipole" -> {"position"}
    [] OTHER -> {}
\* one name for where a point lies: its boundary stratum if it is on the boundary, otherwise the most specific
\* extension set it belongs to (used to localise findings)
LocusOrder == <<"edge-ext", "hull-ext", "base-ext", "face-ext", "ext", "plane", "axis", "negx", "midplane">>
Locus(b, x, c) == IF c = "on" THEN SurfaceC(b, x, c)
                  ELSE LET S == Sets(b, x)
                           hit == {i \in DOMAIN LocusOrder : LocusOrder[i] \in S} IN
                       IF hit = {} THEN "-" ELSE LocusOrder[MinOf(hit)]
Special(b, box) == {x \in box : Sets(b, x) # {}}

\* DOCUMENTED singular points, the only places where a non-finite result is acceptable (C15):
\*  - the location of a Dipole: dipole_Hfield docstring (field_BH_dipole.py): "Returns np.inf for all non-zero
\*    moment components in the origin." (tests/test_obj_Dipole.py::test_Dipole_zero_position pins a non-finite result);
\*  - vertices of Triangle-based sources: triangle_Bfield docstring (field_BH_triangle.py, Notes):
\*    "Corners give (nan, nan, nan). Edges and in-plane perp components are set to 0." (pinned by
\*    tests/test_BHMJ_level.py, triangle corner cases).  Tetrahedron and
\*    TriangularMesh sum triangle_Bfield over their faces, so their vertices inherit it.
Singular(b, x) == \/ b.cls = "Dipole" /\ x = Zero3
                  \/ b.cls \in TriangleBased /\ x \in VertsOf(b)
\* far points: x = m * 10^k (doubled), k >= 1, m a small integer vector # 0; direction class of m
FarDir(m) == LET a == <<Abs(m[1]), Abs(m[2]), Abs(m[3])>>
                 nz == Cardinality({i \in 1..3 : a[i] # 0}) IN
             IF nz = 1 THEN (IF a[3] # 0 THEN "z-axis" ELSE "xy-axis")
             ELSE IF nz = 2 /\ Cardinality({a[i] : i \in {j \in 1..3 : a[j] # 0}}) = 1 THEN (IF a[3] = 0 THEN "xy-diagonal" ELSE "z-diagonal")
             ELSE IF nz = 3 /\ a[1] = a[2] /\ a[2] = a[3] THEN "space-diagonal"
             ELSE IF nz = 2 THEN "plane" ELSE "generic"
\* documented output shape for one source with a path of length 1 and one set of n observer positions:
\* squeeze(l=1, m=1, k=1, n, 3) (getB docstring: "shape squeeze(l, m, k, n1, n2, ..., 3)"; squeeze removes all axes of length 1)
FieldShape(n, asvector, squeeze) == IF ~squeeze THEN <<1, 1, 1, n, 3>>
                                    ELSE IF asvector \/ n = 1 THEN <<3>> ELSE <<n, 3>>

\* ------------------------------------------------------------ Part 5: tolerances (DESIGN.md 3.4), in q12 units (1e-12 of gross)
TolJ == 0          \* J class: exact at the 1e-12 quantum
TolBHJ == 1        \* B - mu0 H - J, J - mu0 M: 1e-12 of the gross scale
TolAttr == 1       \* polarization = mu0 * magnetization: 1e-12 relative
=============================================================================
