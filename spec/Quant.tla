------------------------------- MODULE Quant -------------------------------
(* Comparison of fixed-point observations logged by harness/quant.py.                          *)
(*   q8 : integer, unit 1e-8 of the gross scale of the law instance                            *)
(*   q12: <<hi, lo>>, value = (hi * 10^6 + lo) * 1e-12 of the gross scale                      *)
(* TLC cannot compare an integer with a string: non-finite observations are logged as 0 with  *)
(* a parallel structure of booleans (obs.fin), see harness/quant.py.                           *)
EXTENDS Integers, Sequences, TLC

Abs(x) == IF x < 0 THEN -x ELSE x
AllFinite(f) == \A i \in DOMAIN f : f[i]          \* for a flat sequence of booleans

Close8(a, b, tol) == Abs(a - b) <= tol
\* vectors of q8
VecClose8(a, b, tol) == Len(a) = Len(b) /\ \A i \in 1..Len(a) : Close8(a[i], b[i], tol)

\* difference of two q12 numbers in units of 1e-12, valid when the high limbs differ by at most 2000
Diff12(a, b) == (a[1] - b[1]) * 1000000 + (a[2] - b[2])
Close12(a, b, tol) == Abs(a[1] - b[1]) <= 2000 /\ Abs(Diff12(a, b)) <= tol
VecClose12(a, b, tol) == Len(a) = Len(b) /\ \A i \in 1..Len(a) : Close12(a[i], b[i], tol)
\* a - b - c = 0 within tol (q12), e.g. B - mu0*H - J
Res12(a, b, c) == (a[1] - b[1] - c[1]) * 1000000 + (a[2] - b[2] - c[2])
Zero12(a, b, c, tol) == Abs(a[1] - b[1] - c[1]) <= 2000 /\ Abs(Res12(a, b, c)) <= tol
=============================================================================
