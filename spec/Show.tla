-------------------------------- MODULE Show --------------------------------
(***************************************************************************)
(* What show() must draw (property C19), on the exact lattice.             *)
(*                                                                         *)
(* Objects live on the lattice: positions in Z^3, orientations among the   *)
(* 24 rotations of the cube (3x3 integer matrices), geometry in lattice    *)
(* units.  Drawn coordinates are logged in units of 1/1000 lattice unit    *)
(* ("q3" integers; half-lattice points such as the corners of a unit cube  *)
(* are exact) AFTER the figure has been read in the unit announced on its  *)
(* axes and the concretization has been undone.                            *)
(*                                                                         *)
(* For an object with pose path  pose[1..L]  and the set Disp of displayed *)
(* path indices the graphic is the object's shape placed by                *)
(*        x |-> R[m] x + p[m]          for every m in Disp                 *)
(*  - Cuboid, Tetrahedron, TriangularMesh, Triangle: the vertex SET is the *)
(*    set of placed corners (exact);                                       *)
(*  - Polyline: some drawn line is the placed vertex SEQUENCE;             *)
(*  - Cylinder, CylinderSegment, Sphere, Circle: every drawn vertex lies   *)
(*    on the placed surface / curve and the drawn body spans the full      *)
(*    extent (flat extents exactly, curved ones within CurvedPct %);       *)
(*  - Sensor, Dipole, CustomSource and decorations: only the anchor.       *)
(*  - the path line passes through p[1..L] in order.                       *)
(* show() is a stuttering step on every object, style and default.         *)
(***************************************************************************)
EXTENDS Integers, Sequences, FiniteSets, TLC

Q == 1000                 \* q3 units per lattice unit
Tol == 2                  \* q3 units: rounding of logged coordinates (and of the code's float arithmetic)
CurvedPct == 97           \* a polygonal approximation of a round body reaches at least 97 % of the radius in +-x, +-y (z)

Abs(x) == IF x < 0 THEN -x ELSE x
Max(a, b) == IF a > b THEN a ELSE b
Min(a, b) == IF a < b THEN a ELSE b
Range(s) == {s[i] : i \in DOMAIN s}

(***************************************************************************)
(* Integer linear algebra                                                  *)
(***************************************************************************)
Id3 == <<<<1, 0, 0>>, <<0, 1, 0>>, <<0, 0, 1>>>>
MulMV(R, v) == <<R[1][1] * v[1] + R[1][2] * v[2] + R[1][3] * v[3],
                 R[2][1] * v[1] + R[2][2] * v[2] + R[2][3] * v[3],
                 R[3][1] * v[1] + R[3][2] * v[2] + R[3][3] * v[3]>>
Transpose(R) == <<<<R[1][1], R[2][1], R[3][1]>>, <<R[1][2], R[2][2], R[3][2]>>, <<R[1][3], R[2][3], R[3][3]>>>>
VAdd(a, b) == <<a[1] + b[1], a[2] + b[2], a[3] + b[3]>>
VSub(a, b) == <<a[1] - b[1], a[2] - b[2], a[3] - b[3]>>
VScale(k, a) == <<k * a[1], k * a[2], k * a[3]>>
Det(R) == R[1][1] * (R[2][2] * R[3][3] - R[2][3] * R[3][2]) - R[1][2] * (R[2][1] * R[3][3] - R[2][3] * R[3][1])
          + R[1][3] * (R[2][1] * R[3][2] - R[2][2] * R[3][1])
IsCubeRot(R) == /\ \A i \in 1..3 : \A j \in 1..3 : R[i][j] \in {-1, 0, 1}
                /\ \A i \in 1..3 : Abs(R[i][1]) + Abs(R[i][2]) + Abs(R[i][3]) = 1
                /\ \A j \in 1..3 : Abs(R[1][j]) + Abs(R[2][j]) + Abs(R[3][j]) = 1
                /\ Det(R) = 1
Near(a, b, tol) == Abs(a[1] - b[1]) <= tol /\ Abs(a[2] - b[2]) <= tol /\ Abs(a[3] - b[3]) <= tol

\* pose = [p |-> lattice vector, r |-> cube rotation];  placement of a local q3 point and its inverse
Place(pose, v) == VAdd(MulMV(pose.r, v), VScale(Q, pose.p))
Local(pose, d) == MulMV(Transpose(pose.r), VSub(d, VScale(Q, pose.p)))

(***************************************************************************)
(* Which path indices are displayed (traces_utility.get_rot_pos_from_path, *)
(* style.path.frames).  1-based indices; L = path length.                  *)
(*   sel = [kind |-> "default" | "bool" | "int" | "list", n, l]            *)
(*   default/True/False/0 -> last;  n > 0 -> every n-th counted from the   *)
(*   end;  n < 0 -> every |n|-th from the start;  list of 0-based indices  *)
(*   -> those indices, too large ones clipped to the last, negative ones   *)
(*   counted from the end; empty list -> last.                             *)
(***************************************************************************)
NormIndex(i0, L) == IF i0 >= L THEN L ELSE IF i0 >= 0 THEN i0 + 1 ELSE L + i0 + 1
SelValid(sel, L) == sel.kind = "list" => \A i \in DOMAIN sel.l : sel.l[i] >= -L
Disp(sel, L) ==
    IF sel.kind \in {"default", "bool"} \/ (sel.kind = "int" /\ sel.n = 0) THEN {L}
    ELSE IF sel.kind = "int" /\ sel.n > 0 THEN {L - k * sel.n : k \in {k \in 0..(L - 1) : L - k * sel.n >= 1}}
    ELSE IF sel.kind = "int" THEN {1 + k * (-sel.n) : k \in {k \in 0..(L - 1) : 1 + k * (-sel.n) <= L}}
    ELSE IF sel.l = <<>> THEN {L}
    ELSE {NormIndex(sel.l[i], L) : i \in DOMAIN sel.l}
\* in an animation every frame shows every object at one path index (objects with shorter paths at their last)
AnimSel(ind0) == [kind |-> "list", n |-> 0, l |-> <<ind0>>]

(***************************************************************************)
(* Length units (utility.get_unit_factor): a coordinate c on an axis       *)
(* announced in unit u stands for c * 10^UnitPow(u) metres.                *)
(***************************************************************************)
UnitTable == [ym |-> -24, zm |-> -21, am |-> -18, fm |-> -15, pm |-> -12, nm |-> -9, um |-> -6, mm |-> -3, cm |-> -2, dm |-> -1,
              m |-> 0, km |-> 3, Mm |-> 6, Gm |-> 9, Tm |-> 12, Pm |-> 15, Em |-> 18, Zm |-> 21, Ym |-> 24]
Units == DOMAIN UnitTable            \* "um" stands for the micro sign + m
UnitPow(u) == UnitTable[u]
\* the unit requested by the caller is the one announced ("auto" leaves the choice to show()); pow is the exponent
\* with which the figure was read
UnitAnnouncedOK(req, ann, pow) == ann \in Units /\ (req # "auto" => ann = req) /\ pow = UnitPow(ann)

(***************************************************************************)
(* Geometry in the object's own frame, in q3 units.                        *)
(*   geom = [dim |-> <<..>>, verts |-> << <<x,y,z>>,.. >>]                 *)
(*   Cuboid dim=<<a,b,c>>; Cylinder dim=<<d,h>>; Sphere/Circle dim=<<d>>;  *)
(*   CylinderSegment dim=<<r1,r2,h,phi1,phi2>> with phi multiples of 90;   *)
(*   vertex classes: verts in lattice units.                               *)
(***************************************************************************)
VertexClasses == {"Tetrahedron", "TriangularMesh", "Triangle", "Polyline"}
ExactClasses == {"Cuboid", "Tetrahedron", "TriangularMesh", "Triangle"}
CurvedClasses == {"Cylinder", "CylinderSegment", "Sphere", "Circle"}
AnchorClasses == {"Sensor", "Dipole", "CustomSource"}
Half(n) == (n * Q) \div 2

Corners(cls, g) ==
    IF cls = "Cuboid"
    THEN {<<sx * Half(g.dim[1]), sy * Half(g.dim[2]), sz * Half(g.dim[3])>> : sx \in {-1, 1}, sy \in {-1, 1}, sz \in {-1, 1}}
    ELSE {VScale(Q, g.verts[i]) : i \in DOMAIN g.verts}
VertSeq(g) == [i \in DOMAIN g.verts |-> VScale(Q, g.verts[i])]

Rho2(x) == x[1] * x[1] + x[2] * x[2]
\* |rho^2 - r^2| small <=> |rho - r| <= tol
OnRadius(x, r, tol) == Abs(Rho2(x) - r * r) <= 2 * r * tol + tol * tol
InRadius(x, r, tol) == Rho2(x) <= r * r + 2 * r * tol + tol * tol
\* azimuth of x within [phi1, phi2] (degrees, multiples of 90, 0 <= phi2 - phi1 <= 360), with tolerance
QuadrantsOf(phi1, phi2) == {k \in -8..8 : phi1 <= 90 * k /\ 90 * (k + 1) <= phi2}
InQuadrant(x, k, tol) == LET q == k % 4 IN
    CASE q = 0 -> x[1] >= -tol /\ x[2] >= -tol
      [] q = 1 -> x[1] <= tol /\ x[2] >= -tol
      [] q = 2 -> x[1] <= tol /\ x[2] <= tol
      [] q = 3 -> x[1] >= -tol /\ x[2] <= tol
InSector(x, phi1, phi2, tol) == \E k \in QuadrantsOf(phi1, phi2) : InQuadrant(x, k, tol)
\* x in the half plane of azimuth phi (a multiple of 90)
OnHalfPlane(x, phi, tol) == LET k == (phi \div 90) % 4 IN
    CASE k = 0 -> Abs(x[2]) <= tol /\ x[1] >= -tol
      [] k = 1 -> Abs(x[1]) <= tol /\ x[2] >= -tol
      [] k = 2 -> Abs(x[2]) <= tol /\ x[1] <= tol
      [] k = 3 -> Abs(x[1]) <= tol /\ x[2] <= tol

\* x (local, q3) lies on the surface of the body / on the curve
OnShape(cls, g, x, tol) ==
    CASE cls = "Cuboid" ->
           LET h == <<Half(g.dim[1]), Half(g.dim[2]), Half(g.dim[3])>> IN
           /\ \A i \in 1..3 : Abs(x[i]) <= h[i] + tol
           /\ \E i \in 1..3 : Abs(Abs(x[i]) - h[i]) <= tol
      [] cls = "Cylinder" ->
           LET r == Half(g.dim[1]) hh == Half(g.dim[2]) IN
           \/ (Abs(Abs(x[3]) - hh) <= tol /\ InRadius(x, r, tol))
           \/ (OnRadius(x, r, tol) /\ Abs(x[3]) <= hh + tol)
      [] cls = "Sphere" ->
           LET r == Half(g.dim[1]) IN Abs(Rho2(x) + x[3] * x[3] - r * r) <= 2 * r * tol + tol * tol
      [] cls = "Circle" ->
           LET r == Half(g.dim[1]) IN Abs(x[3]) <= tol /\ OnRadius(x, r, tol)
      [] cls = "CylinderSegment" ->
           LET r1 == g.dim[1] * Q r2 == g.dim[2] * Q hh == Half(g.dim[3]) p1 == g.dim[4] p2 == g.dim[5] IN
           /\ Abs(x[3]) <= hh + tol /\ InRadius(x, r2, tol) /\ (r1 = 0 \/ ~InRadius(x, r1, -tol))
           /\ (InSector(x, p1, p2, tol) \/ Rho2(x) <= tol * tol)
           /\ \/ Abs(Abs(x[3]) - hh) <= tol
              \/ OnRadius(x, r2, tol) \/ OnRadius(x, r1, tol)
              \/ (p2 - p1 < 360 /\ (OnHalfPlane(x, p1, tol) \/ OnHalfPlane(x, p2, tol)))      \* side planes
      [] OTHER -> FALSE

\* extent the drawn body must reach in the local frame: <<lo, hi>> per axis, flags whether the axis is flat (exact)
\* or curved (at least CurvedPct % of it)
ExtentOK(cls, g, pts, tol) ==
    LET mx(i) == CHOOSE v \in {p[i] : p \in pts} : \A w \in {p[i] : p \in pts} : v >= w
        mn(i) == CHOOSE v \in {p[i] : p \in pts} : \A w \in {p[i] : p \in pts} : v <= w
        curved(i, r) == mx(i) * 100 >= CurvedPct * r /\ mx(i) <= r + tol /\ mn(i) * 100 <= -CurvedPct * r /\ mn(i) >= -r - tol
        flat(i, h) == Abs(mx(i) - h) <= tol /\ Abs(mn(i) + h) <= tol
    IN pts # {} /\
       CASE cls = "Cylinder" -> curved(1, Half(g.dim[1])) /\ curved(2, Half(g.dim[1])) /\ flat(3, Half(g.dim[2]))
         [] cls = "Sphere" -> \A i \in 1..3 : curved(i, Half(g.dim[1]))
         [] cls = "Circle" -> curved(1, Half(g.dim[1])) /\ curved(2, Half(g.dim[1])) /\ flat(3, 0)
         [] cls = "CylinderSegment" ->
              \* the end points of the arcs are drawn exactly: the outer corners at phi1 and at phi2 are vertices
              /\ flat(3, Half(g.dim[3]))
              /\ \A ph \in {g.dim[4], g.dim[5]} : \A sz \in {-1, 1} : \A rr \in {g.dim[1], g.dim[2]} :
                   LET k == (ph \div 90) % 4
                       c == IF k = 0 THEN <<rr * Q, 0>> ELSE IF k = 1 THEN <<0, rr * Q>> ELSE IF k = 2 THEN <<-rr * Q, 0>> ELSE <<0, -rr * Q>>
                   IN \E p \in pts : Near(p, <<c[1], c[2], sz * Half(g.dim[3])>>, tol)
         [] OTHER -> TRUE

(***************************************************************************)
(* Judging the drawn traces of ONE object.                                 *)
(*   poses: sequence of poses (path), D: set of displayed indices          *)
(*   a trace = [type, mode, segs]; segs = sequence of point sequences      *)
(*   (a mesh has one segment: its vertices; a line is cut where the figure *)
(*   interrupts it)                                                        *)
(***************************************************************************)
PointsOf(tr) == UNION {Range(tr.segs[i]) : i \in DOMAIN tr.segs}
IsPathTrace(tr) == tr.type = "scatter3d" /\ tr.mode \in {"markers+lines", "markers+text+lines", "lines+markers"}
IsMesh(tr) == tr.type = "mesh3d"
IsLine(tr) == tr.type = "scatter3d" /\ tr.mode = "lines"
SeqNear(a, b, tol) == Len(a) = Len(b) /\ \A i \in DOMAIN a : Near(a[i], b[i], tol)

\* The glyph of a Dipole is an arrow (a shaft and a wider cone at the tip) along the moment, which is a vector of the OBJECT's frame:
\* the drawn arrow points along R * moment.  Size and pivot are chosen by show(), so the claim is scale- and offset-free:
\*   GlyphAxis    - no vertex is farther from the line through the object's position along R * moment than a fifth of the arrow's length along the moment
\*                  (the arrow is drawn with diameter 0.3 x length), measured in the object's frame;
\*   GlyphHeading - the widest ring of vertices (the base of the cone) lies in the tip-side part of the extent along the moment
\*                  (at 0.7 of it; demanded: beyond 0.6), so the arrow points along +moment and not along -moment.
\* Judged when exactly one path index is displayed (the vertices of several displayed indices are merged in one trace) and the glyph is
\* within 6 lattice units of the position and |moment|^2 <= 9 (32-bit integer arithmetic).  g.verts = <<moment>> (lattice vector); none given: the harness uses (0,0,1).
Dot(a, b) == a[1] * b[1] + a[2] * b[2] + a[3] * b[3]
MomentOf(g) == IF g.verts = <<>> THEN <<0, 0, 1>> ELSE g.verts[1]
ArrowClause(u, pose, M) ==
    IF M = {} \/ ~(\A d \in M : \A i \in 1..3 : Abs(Local(pose, d)[i]) <= 6 * Q) THEN "ok"
    ELSE LET loc(d) == Local(pose, d)                   \* relative to the object's position: the pivot of the arrow lies on its axis
             A == {Dot(loc(d), u) : d \in M}
             amax == CHOOSE a \in A : \A b \in A : b <= a
             amin == CHOOSE a \in A : \A b \in A : b >= a
             P(d) == Dot(loc(d), loc(d)) * Dot(u, u) - Dot(loc(d), u) * Dot(loc(d), u)         \* (distance from the axis)^2 * |u|^2
             PS == {P(d) : d \in M}
             pmax == CHOOSE a \in PS : \A b \in PS : b <= a
             wide == {d \in M : P(d) >= pmax - pmax \div 5}
         IN IF amax = amin \/ pmax > ((amax - amin) * (amax - amin)) \div 25 THEN "GlyphAxis"
            ELSE IF ~(\A d \in wide : 10 * Dot(loc(d), u) >= 4 * amin + 6 * amax) THEN "GlyphHeading"
            ELSE "ok"

\* coverage: for every displayed index the placed corners are among the drawn points of some body trace
Covered(E, pts, tol) == \A e \in E : \E d \in pts : Near(e, d, tol)
\* the first failing clause of the placement of one object, or "ok"
\*   body(tr): which traces may carry the body (meshes for magnets, lines for currents)
ShapeClause(cls, g, poses, D, traces, bare, tol) ==
    LET body == IF cls \in {"Polyline", "Circle"} THEN {t \in traces : IsLine(t)} ELSE {t \in traces : IsMesh(t)}
        pts == UNION {PointsOf(t) : t \in body}
    IN
    IF cls \in ExactClasses THEN
        IF ~(\A m \in D : Covered({Place(poses[m], c) : c \in Corners(cls, g)}, pts, tol)) THEN "ShapeCorners"
        ELSE IF bare /\ ~(\A d \in pts : \E m \in D : \E c \in Corners(cls, g) : Near(d, Place(poses[m], c), tol)) THEN "ShapeNoStrayVertex"
        ELSE "ok"
    ELSE IF cls = "Polyline" THEN
        IF ~(\A m \in D : \E t \in body : \E i \in DOMAIN t.segs :
                SeqNear(t.segs[i], [k \in DOMAIN g.verts |-> Place(poses[m], VertSeq(g)[k])], tol)) THEN "LineThroughVertices"
        ELSE "ok"
    ELSE IF cls \in CurvedClasses THEN
        IF pts = {} THEN "ShapeDrawn"
        ELSE IF bare /\ ~(\A d \in pts : \E m \in D : OnShape(cls, g, Local(poses[m], d), tol)) THEN "ShapeOnSurface"
        ELSE IF ~(\A m \in D : ExtentOK(cls, g, {Local(poses[m], d) : d \in {d \in pts : OnShape(cls, g, Local(poses[m], d), tol)}}, tol)) THEN "ShapeExtent"
        ELSE "ok"
    ELSE IF cls \in AnchorClasses THEN
        \* only the anchor: the glyph is drawn around the object's position (its size is chosen by show())
        LET all == UNION {PointsOf(t) : t \in {t \in traces : ~IsPathTrace(t)}}
            inside(m) == LET a == VScale(Q, poses[m].p) IN
                \A i \in 1..3 : (\E d \in all : d[i] <= a[i] + tol) /\ (\E d \in all : d[i] >= a[i] - tol)
        IN IF all = {} THEN "GlyphDrawn"
           ELSE IF ~(\A m \in D : inside(m)) THEN "GlyphAnchor"
           ELSE IF cls = "Dipole" /\ Cardinality(D) = 1 /\ MomentOf(g) # <<0, 0, 0>>
                THEN ArrowClause(MomentOf(g), poses[CHOOSE m \in D : TRUE], UNION {PointsOf(t) : t \in {t \in traces : IsMesh(t)}})
           ELSE "ok"
    ELSE "ok"      \* Collection: no shape of its own

\* the path line: drawn iff the path has more than one position; passes through all positions in order
PathClause(poses, traces, shown, tol) ==
    LET L == Len(poses)
        want == [k \in 1..L |-> VScale(Q, poses[k].p)]
        pt == {t \in traces : IsPathTrace(t)}
    IN IF L > 1 /\ shown /\ ~(\E t \in pt : \E i \in DOMAIN t.segs : SeqNear(t.segs[i], want, tol)) THEN "PathLine"
       ELSE "ok"

\* soundness of a pose path as a lattice path
PosesOK(poses) == Len(poses) >= 1 /\ \A m \in DOMAIN poses : IsCubeRot(poses[m].r)
=============================================================================
