------------------------------- MODULE Style -------------------------------
(***************************************************************************)
(* Display styles of magpylib (style.py, defaults_utility.MagicProperties, *)
(* defaults_classes.DefaultSettings, BaseGeo.style, style.get_style as     *)
(* called from display/traces_utility.py).  Requirement view of C20.       *)
(*                                                                         *)
(* State record                                                            *)
(*     st = [objVal |-> [object -> [leaf -> value]],                       *)
(*           def    |-> [family -> [leaf -> value]]]                       *)
(* Values are strings; Unset ("None") is "no value given"; Bad is a value  *)
(* that the validator of the leaf does not admit.  The family "base" holds *)
(* the base defaults.  A context record describes the fixed structure      *)
(*     cx = [chain |-> [object -> Seq(family)]   most general family first,*)
(*                                               "base" not listed         *)
(*           has   |-> [object -> [leaf -> BOOLEAN]]  style class has leaf *)
(*           fhas  |-> [family -> [leaf -> BOOLEAN]]  default class has it *)
(*           def0  |-> [family -> [leaf -> value]]    library defaults     *)
(*           kids  |-> [object -> Seq(object)]]  children of collections   *)
(*                                                                         *)
(* Leaf NAMES, NOTATIONS (underscore keyword, nested dictionary, attribute *)
(* assignment, update at any level, constructor, style=) and ALIASES are   *)
(* a concern of the binding: every notation is a way of invoking SetObjF / *)
(* SetDefF / ShowF with one abstract leaf, an alias pair is one leaf with  *)
(* two names.  Every operation is written once in functional form          *)
(*      OpF(st, cx, args) == [ok |-> BOOLEAN, st |-> state]                *)
(* and is used by MC_Style (all histories) and TV_Style (recorded steps).  *)
(***************************************************************************)
EXTENDS Integers, Sequences, FiniteSets

Unset == "None"
Bad == "<invalid>"
Base == "base"

(***************************************************************************)
(* Documented family chains of the style classes (most general first):     *)
(* homogeneous magnets use the "magnet" defaults, Triangle and             *)
(* TriangularMesh additionally their own family, currents "current", ...;  *)
(* Collection and CustomSource have only the base defaults.                *)
(***************************************************************************)
ClassChain == [Cuboid |-> <<"magnet">>, Cylinder |-> <<"magnet">>, CylinderSegment |-> <<"magnet">>,
               Sphere |-> <<"magnet">>, Tetrahedron |-> <<"magnet">>,
               Triangle |-> <<"magnet", "triangle">>, TriangularMesh |-> <<"magnet", "triangularmesh">>,
               Circle |-> <<"current">>, Polyline |-> <<"current">>,
               Sensor |-> <<"sensor">>, Dipole |-> <<"dipole">>, Markers |-> <<"markers">>,
               Collection |-> <<>>, CustomSource |-> <<>>]

(***************************************************************************)
(* Resolution: show keyword > object > most specific family default along  *)
(* the chain > base default.                                               *)
(***************************************************************************)
FamilyDefault(d, ch, l) ==      \* most specific set family default, scanning the chain from its end
    LET RECURSIVE F(_)
        F(k) == IF k = 0 THEN Unset ELSE IF d[ch[k]][l] # Unset THEN d[ch[k]][l] ELSE F(k - 1)
    IN F(Len(ch))

\* kw : [leaf -> value]  keyword values given to show() (Unset where none is given)
Resolve(st, cx, o, l, kw) ==
    IF ~cx.has[o][l] THEN Unset                      \* the style class of o has no such leaf: keyword ignored
    ELSE IF kw[l] # Unset THEN kw[l]
    ELSE IF st.objVal[o][l] # Unset THEN st.objVal[o][l]
    ELSE LET fd == FamilyDefault(st.def, cx.chain[o], l) IN
         IF fd # Unset THEN fd ELSE st.def[Base][l]

\* the same thing stated independently of the nesting above: first set entry of the list of sources
Candidates(st, cx, o, l, kw) ==
    <<kw[l], st.objVal[o][l]>>
    \o [k \in 1..Len(cx.chain[o]) |-> st.def[cx.chain[o][Len(cx.chain[o]) + 1 - k]][l]]
    \o <<st.def[Base][l]>>
RECURSIVE FirstSet(_)
FirstSet(s) == IF s = <<>> THEN Unset ELSE IF Head(s) # Unset THEN Head(s) ELSE FirstSet(Tail(s))
PrecedenceAt(st, cx, o, l, kw) ==
    Resolve(st, cx, o, l, kw) = (IF cx.has[o][l] THEN FirstSet(Candidates(st, cx, o, l, kw)) ELSE Unset)

(***************************************************************************)
(* Operations.                                                             *)
(***************************************************************************)
Rejected(st) == [ok |-> FALSE, st |-> st]          \* invalid name or value: an error, nothing changes

\* any notation that gives leaf l of object o the value v (v = Unset: the leaf is given None)
SetObjF(st, cx, o, l, v) ==
    IF l \notin DOMAIN cx.has[o] \/ ~cx.has[o][l] \/ v = Bad THEN Rejected(st)
    ELSE [ok |-> TRUE, st |-> [st EXCEPT !.objVal[o][l] = v]]

\* several objects constructed from ONE style argument (the same dictionary object handed to several constructors):
\* each of them gets the value as its own, whatever the order in which their styles are first read, copied or shown
SetObjsF(st, cx, os, l, v) ==
    IF v = Bad \/ (\E o \in os : l \notin DOMAIN cx.has[o] \/ ~cx.has[o][l]) THEN Rejected(st)
    ELSE [ok |-> TRUE, st |-> [st EXCEPT !.objVal = [o \in DOMAIN st.objVal |-> IF o \in os THEN [st.objVal[o] EXCEPT ![l] = v] ELSE st.objVal[o]]]]

\* any notation that gives leaf l of the defaults of family f the value v
SetDefF(st, cx, f, l, v) ==
    IF l \notin DOMAIN cx.fhas[f] \/ ~cx.fhas[f][l] \/ v = Bad THEN Rejected(st)
    ELSE [ok |-> TRUE, st |-> [st EXCEPT !.def[f][l] = v]]

\* magpylib.defaults.reset()
ResetF(st, cx) == [ok |-> TRUE, st |-> [st EXCEPT !.def = cx.def0]]

\* c = o.copy(): c carries the values of o; from then on the two are independent (frame of SetObjF)
CopyF(st, cx, o, c) == [ok |-> TRUE, st |-> [st EXCEPT !.objVal[c] = st.objVal[o]]]

\* show(..., style keywords kw): no state change; an invalid keyword name or value is rejected
ShowF(st, cx, kw, badname) ==
    IF badname \/ (\E l \in DOMAIN kw : kw[l] = Bad) THEN Rejected(st) ELSE [ok |-> TRUE, st |-> st]

(***************************************************************************)
(* coll.set_children_styles(arg, recursive, **kwargs)                      *)
(*   cx.kids : [object -> Seq(object)]  the collection tree (fixed here;   *)
(*             its edits are the subject of Tree.tla)                      *)
(*   asg     : [given leaves -> value]  the style values given, in any     *)
(*             notation (dictionary, underscore keywords, a mixture)       *)
(* Names and values are checked first: an invalid one rejects the call and *)
(* no child changes.  Otherwise every member (children; with recursive all *)
(* descendants, child collections included) that HAS a given leaf gets it  *)
(* as its OWN value; leaves a member does not have are skipped for it.     *)
(* Nothing else changes: not the collection itself, not objects outside,   *)
(* not the defaults (and not the caller's dictionary: harness clause).     *)
(***************************************************************************)
KidSet(cx, k) == {cx.kids[k][i] : i \in DOMAIN cx.kids[k]}
Descendants(cx, k) ==
    LET RECURSIVE D(_, _)
        D(o, n) == IF n = 0 THEN {} ELSE UNION {{ch} \cup D(ch, n - 1) : ch \in KidSet(cx, o)}
    IN D(k, Cardinality(DOMAIN cx.kids))
Members(cx, k, rec) == IF rec THEN Descendants(cx, k) ELSE KidSet(cx, k)
KidsValue(st, cx, mem, asg, o, l) ==      \* the own value of (o, l) after the call
    IF o \in mem /\ l \in DOMAIN asg /\ l \in DOMAIN cx.has[o] /\ cx.has[o][l] THEN asg[l] ELSE st.objVal[o][l]
SetKidsF(st, cx, k, asg, rec, badname) ==
    IF badname \/ (\E l \in DOMAIN asg : asg[l] = Bad) THEN Rejected(st)
    ELSE LET mem == Members(cx, k, rec) IN
         [ok |-> TRUE,
          st |-> [st EXCEPT !.objVal = [o \in DOMAIN st.objVal |-> [l \in DOMAIN st.objVal[o] |-> KidsValue(st, cx, mem, asg, o, l)]]]]

\* call = [op, tgt, src, l, v, kw, badname, asg, rec, tgts]
Apply(st, cx, call) ==
    CASE call.op = "SetObj" -> SetObjF(st, cx, call.tgt, call.l, call.v)
      [] call.op = "SetDef" -> SetDefF(st, cx, call.tgt, call.l, call.v)
      [] call.op = "Reset"  -> ResetF(st, cx)
      [] call.op = "Copy"   -> CopyF(st, cx, call.src, call.tgt)
      [] call.op = "Show"   -> ShowF(st, cx, call.kw, call.badname)
      [] call.op = "SetObjs" -> SetObjsF(st, cx, call.tgts, call.l, call.v)
      [] call.op = "SetKids" -> SetKidsF(st, cx, call.tgt, call.asg, call.rec, call.badname)

(***************************************************************************)
(* What C20 demands of ONE step  pre --call--> post  (used as action       *)
(* properties in MC_Style and clause by clause in TV_Style).               *)
(***************************************************************************)
Objs(st) == DOMAIN st.objVal
Fams(st) == DOMAIN st.def
\* leaves of object o other than (o = tgt, leaf = l) kept their values
OtherLeavesKept(pre, post, tgt, l) ==
    \A l2 \in DOMAIN pre.objVal[tgt] : l2 # l => post.objVal[tgt][l2] = pre.objVal[tgt][l2]
OtherObjsKept(pre, post, tgt) ==
    \A o \in Objs(pre) : o # tgt => post.objVal[o] = pre.objVal[o]
OtherDefLeavesKept(pre, post, f, l) ==
    \A l2 \in DOMAIN pre.def[f] : l2 # l => post.def[f][l2] = pre.def[f][l2]
OtherFamsKept(pre, post, f) ==
    \A f2 \in Fams(pre) : f2 # f => post.def[f2] = pre.def[f2]
\* set_children_styles: every member got every given leaf it has ...
KidsGot(post, cx, mem, asg) ==
    \A o \in mem : \A l \in DOMAIN asg : (l \in DOMAIN cx.has[o] /\ cx.has[o][l]) => post.objVal[o][l] = asg[l]
\* ... its other leaves (and given leaves it does not have) kept their values ...
KidsOtherLeavesKept(pre, post, cx, mem, asg) ==
    \A o \in mem : \A l \in DOMAIN pre.objVal[o] :
        ~(l \in DOMAIN asg /\ l \in DOMAIN cx.has[o] /\ cx.has[o][l]) => post.objVal[o][l] = pre.objVal[o][l]
\* ... and nobody else (the collection itself, objects outside, deeper levels when not recursive) changed
NonMembersKept(pre, post, mem) == \A o \in Objs(pre) \ mem : post.objVal[o] = pre.objVal[o]
=============================================================================
