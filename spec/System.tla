------------------------------- MODULE System -------------------------------
(***************************************************************************)
(* The modules composed: ONE state holds the collection forest (Tree), the *)
(* path of every object (Path) and what a field computation returns in     *)
(* that state (FieldWrap).  Histories interleave tree edits, motion of     *)
(* objects and collections, and field observations.                        *)
(*                                                                         *)
(*   st = [kind, parent, children, srcs, sens, colls,     \* Tree          *)
(*         path : [object -> [pos, ori]]]                 \* Path          *)
(*                                                                         *)
(* TLC explores the model exhaustively to a small depth and, in simulation *)
(* mode, generates deep random behaviours that the harness replays into    *)
(* real objects step by step (binding A', spec -> code): after every step  *)
(* the projected state of the real objects must equal the model state, and *)
(* every observation must equal the declarative tensor.                    *)
(***************************************************************************)
EXTENDS FieldWrap
Tree == INSTANCE Tree

Universe(st) == DOMAIN st.kind
\* ---- the forest part as Tree sees it / the compound part as Path sees it
KidsOf(st) == [o \in Universe(st) |-> IF st.kind[o] = "C" THEN st.children[o] ELSE <<>>]
PathView(st) == [kids |-> KidsOf(st), path |-> st.path]

TreeStep(st, call) == LET r == Tree!Apply(st, call) IN [ok |-> r.ok, st |-> r.st]          \* EXCEPT keeps the path field
PathStep(st, call) == [ok |-> TRUE, st |-> [st EXCEPT !.path = ApplyPath(PathView(st), call).path]]

\* ---- field observation in the current state
Tag(o) == CASE o = "S1" -> 1 [] o = "S2" -> 2 [] o = "S3" -> 3 [] OTHER -> 4
RECURSIVE NodeOf(_, _, _)
NodeOf(st, o, n) == IF st.kind[o] = "S" THEN [kind |-> "leaf", id |-> o, tag |-> Tag(o), path |-> st.path[o]]
                    ELSE IF st.kind[o] = "X" THEN [kind |-> "sens"]
                    ELSE [kind |-> "coll", kids |-> (IF n = 0 THEN <<>> ELSE [i \in 1..Len(st.children[o]) |-> NodeOf(st, st.children[o][i], n - 1)])]
Pix(o) == IF o = "X1" THEN <<<<0, 0, 0>>>> ELSE <<<<1, -1, 2>>, <<0, 2, -1>>>>
SensorOf(st, o) == [id |-> o, path |-> st.path[o], left |-> (o = "X2"), pix |-> Pix(o), pixshape |-> <<Len(Pix(o))>>,
                    pk |-> (IF o = "X1" THEN "none" ELSE "arr")]
CallOf(st, srcs, sens, field, sumup) ==
    [field |-> field, sumup |-> sumup, squeeze |-> FALSE, agg |-> "none",
     sources |-> [i \in 1..Len(srcs) |-> NodeOf(st, srcs[i], Cardinality(Universe(st)))],
     sensors |-> [i \in 1..Len(sens) |-> SensorOf(st, sens[i])]]
Observable(st, srcs, sens) == LET e == CallOf(st, srcs, sens, "B", FALSE) IN WellFormed(e)
Observe(st, srcs, sens, field, sumup) == Expected(CallOf(st, srcs, sens, field, sumup))

\* ---- invariants of the composed state
PathsOK(st) == \A o \in Universe(st) : PathOK(st.path[o])
SystemInv(st) == Tree!ForestInv(st) /\ PathsOK(st)
=============================================================================
