INIT Init
NEXT Next
