------------------------------ MODULE TV_Batch ------------------------------
(* ndjson: {"tid","kind":"batch","arr":[palette ids],"field","T":[l][m][k][p][3] q12,"single":[l][k] -> [m][p][3] q12,"same":bool,"fin","finT","finS","raised":bool} *)
(*         {"tid","kind":"linear","cls","field","a","b","obs","obs1","obs2" : [i][3] q12, "fin"}                                              *)
(*         {"tid","kind":"homog","cls","field","dec","obs","obsd" : [i][3] q12 (obsd in units of 10^dec * gross), "fin"}                      *)
(*         {"tid","kind":"super","field","whole":[i][3],"parts":[l][i][3],"fin"}                                                              *)
EXTENDS Batch, TLC, Json, IOUtils
VARIABLE x
Trace == ndJsonDeserialize(IOEnv.TRACE_FILE)
OK == <<"ok", "ok">>
Verdict(ev) ==
  IF ev.kind = "batch" /\ ev.raised THEN <<"C06", "BatchCallFailsWhereSingleCallsSucceed">>      \* the outcome of a valid call depends on what else is in it
  ELSE IF ev.kind = "batch" /\ ev.finT # ev.finS THEN <<"C06", "FinitenessDependsOnBatch">>      \* NaN/inf in the batch, finite alone (or vice versa)
  ELSE IF ~ev.fin THEN <<"-", "NonFinite">>
  ELSE IF ev.kind = "batch" THEN
       (IF ElementIndependence(ev.T, ev.single, ev.same) THEN OK ELSE <<"C06", "ElementIndependence">>)
  ELSE IF ev.kind = "homog" THEN
       (IF Homogeneity(ev.obs, ev.obsd, TolRe) THEN OK ELSE <<"C05", "Homogeneity">>)
  ELSE IF ev.kind = "linear" THEN
       (IF Linearity(ev.obs, ev.obs1, ev.obs2, ev.a, ev.b, TolRe) THEN OK ELSE <<"C05", "Linearity">>)
  ELSE (IF Superposition(ev.whole, ev.parts, TolRe) THEN OK ELSE <<"C05", "Superposition">>)
BadIdx == {i \in 1..Len(Trace) : Verdict(Trace[i])[1] # "ok"}
ASSUME PrintT(<<"validated", Len(Trace), "rejected", Cardinality(BadIdx)>>)
ASSUME \A i \in BadIdx : LET v == Verdict(Trace[i]) IN
   PrintT(<<"REJECT", Trace[i].tid, v[2], v[1], <<Trace[i].kind, Trace[i].field, Trace[i].what,
            IF Trace[i].kind = "batch" /\ Trace[i].fin /\ ~Trace[i].raised THEN FirstBadElement(Trace[i].T, Trace[i].single, Trace[i].same) ELSE <<0, 0, 0, 0>>>>>>)
Init == x = 0
Next == x' = x
=============================================================================
