---------------------------- MODULE TV_FieldCall ----------------------------
(* Validator for C08: phase traces of real field calls (hooks) replayed through FieldCall!RunF, plus the    *)
(* deep before/after digests and the outcome of calling again.                                             *)
(* ndjson: {"tid","kind":"phases"|"plain"|"broken","plan":[points],"events":[{"p","lens"}],"unchanged",    *)
(*          "equal_len","again_same","exc","inject"}                                                       *)
EXTENDS FieldCall, TLC, Json, IOUtils
VARIABLE x
Trace == ndJsonDeserialize(IOEnv.TRACE_FILE)
OK == <<"ok", "ok">>
Points(evs) == [i \in 1..Len(evs) |-> evs[i].p]
Verdict(ev) ==
  IF ev.kind = "broken" THEN <<"-", "HarnessBroken">>
  ELSE IF ~ev.unchanged THEN <<"C08", "DeepUnchanged">>
  ELSE IF ~ev.equal_len THEN <<"C08", "PathLengthsDiffer">>
  ELSE IF ~ev.again_same THEN <<"C08", "AgainDiffers">>
  ELSE IF ev.kind = "plain" THEN OK
  ELSE LET r == RunF(Start(ev.events[1].lens), ev.events, 1) IN
       IF ~r.ok THEN (IF r.clause \in {"Order", "Incomplete", "UnknownPoint"} THEN <<"-", r.clause>> ELSE <<"C08", r.clause>>)
       ELSE IF Points(ev.events) # ev.plan THEN <<"-", "PlanMismatch">>
       ELSE OK
BadIdx == {i \in 1..Len(Trace) : Verdict(Trace[i])[1] # "ok"}
ASSUME PrintT(<<"validated", Len(Trace), "rejected", Cardinality(BadIdx)>>)
ASSUME \A i \in BadIdx : LET v == Verdict(Trace[i]) IN PrintT(<<"REJECT", Trace[i].tid, v[2], v[1], <<Trace[i].kind, Trace[i].exc, Trace[i].inject>>>>)
Init == x = 0
Next == x' = x
=============================================================================
