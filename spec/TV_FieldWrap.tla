---------------------------- MODULE TV_FieldWrap ----------------------------
(* Batch validator: full output tensors of real getB/getH calls with tagged sources, judged by the        *)
(* declarative definition in FieldWrap.tla.                                                               *)
(* ndjson line: {"tid", "call": e, "form", "outcome", "shape": [..], "den": [..per sensor..],             *)
(*               "out": [l][m][k][j][3] integers (canonical, pixel axes flattened), "ok_reshape": bool,   *)
(*               "stages": {"has", "computed": [s][m][q][3], "reduced", "rotated": [l][m][q][3],          *)
(*                          "aggregated": [l][m][k][j][3]}  arrays at the hook points of getBH_level2}    *)
EXTENDS FieldAlgo, TLC, Json, IOUtils
VARIABLE x
Trace == ndJsonDeserialize(IOEnv.TRACE_FILE)
OK == <<"ok", "ok">>

Verdict(ev) ==
  LET e == ev.call IN
  IF ~WellFormed(e) THEN (IF ev.outcome = "raise" THEN OK ELSE <<"-", "IllFormedAccepted">>)
  ELSE IF ev.outcome # "ok" THEN <<"-", "WellFormedRejected">>
  ELSE IF ev.shape # ShapeOf(e) THEN (IF e.agg # "none" THEN <<"-", "ShapeAgg">> ELSE <<"FW", "Shape">>)
  ELSE IF ~ev.ok_reshape THEN <<"FW", "Shape">>
  ELSE IF e.agg # "none" /\ \E k \in 1..Len(e.sensors) : ev.den[k] # AggDen(e.agg, Len(e.sensors[k].pix)) THEN <<"-", "Den">>
  ELSE IF ev.out # Expected(e) THEN <<"FW", "Tensor">>
  \* the arrays the code held at its named points (hooks), each step judged from the PREVIOUS logged array (FieldAlgo.tla)
  ELSE IF ~ev.stages.has THEN OK
  ELSE IF ev.stages.computed # Computed(e) THEN <<"FW", "StageComputed">>
  ELSE IF ev.stages.reduced # ReducedFrom(e, ev.stages.computed) THEN <<"FW", "StageReduced">>
  ELSE IF ev.stages.rotated # RotatedFrom(e, ev.stages.reduced) THEN <<"FW", "StageRotated">>
  ELSE IF ev.stages.aggregated # AggregatedFrom(e, ev.stages.rotated) THEN <<"FW", "StageAggregated">>
  ELSE IF ev.out # SumUpFrom(e, ev.stages.aggregated) THEN <<"FW", "StageSumup">>
  ELSE OK

Bad == {i \in 1..Len(Trace) : Verdict(Trace[i])[1] # "ok"}
ASSUME PrintT(<<"validated", Len(Trace), "rejected", Cardinality(Bad)>>)
ASSUME \A i \in Bad : LET v == Verdict(Trace[i]) IN PrintT(<<"REJECT", Trace[i].tid, v[2], v[1], <<Trace[i].form, Trace[i].outcome>>>>)
Init == x = 0
Next == x' = x
=============================================================================
