----------------------------- MODULE TV_Finite -----------------------------
(***************************************************************************)
(* C15 validator: every finite input yields a finite field in bounded      *)
(* time; non-finite results only at the DOCUMENTED singular points         *)
(* (Physics!Singular: position of a Dipole, vertices of Triangle-based     *)
(* sources).                                                               *)
(*                                                                         *)
(* Input (ndjson, IOEnv.TRACE_FILE), one line per scene:                   *)
(*  {sid, name, kind: "scan" | "far", body, pose:{R,p2}, valid, exc0, scale,*)
(*   gen, iface, fields:[..], vk:[..], outcome, exc, cpu, shapes:[..],     *)
(*   pts:[..]}                                                             *)
(*   valid   the source is a valid input per the documentation (FALSE for  *)
(*           the degenerate Triangle / Tetrahedron, judged under C17)      *)
(*   degen   a degenerate-but-accepted geometry (vanishing size) given     *)
(*           through the functional interface or magpylib.core             *)
(*           (Physics!DegenerateOK instead of BodyOK)                      *)
(*   exc0    zero excitation;  scale = decade of the lattice unit (100 =   *)
(*           unit 1);  gen = a generic rigid motion was applied (kappa)    *)
(*   fields  the fields evaluated per call, e.g. <<"B","H","J","M">> for   *)
(*           the object interface, <<"B">> for a core function             *)
(*   vk      kind of every variant of a point: "exact", "ulp" (+-1, +-4    *)
(*           ulp of one coordinate), "eps" (+-1, +-4 ulp of the body size, *)
(*           matters for coordinates that are 0), "near" (1e-12, 1e-9,     *)
(*           1e-6 sizes)                                                   *)
(*   outcome "ok" | "timeout" (watchdog) | "exception" (exc = class name)  *)
(*   shapes  [{n, asvector, squeeze, core, shape}] shape probes            *)
(*   wd      indices of the variants whose whole-box call hit the watchdog *)
(*   pts     scan: {t, o, f}   o = doubled global lattice observer,        *)
(*                 f[v] = finite mask of variant v: bit 3*i+j set iff      *)
(*                 component j of field i is finite; -1 = the call with    *)
(*                 this observer alone hit the watchdog, -2 = it raised    *)
(*                 (exception class names in the scene field exc)          *)
(*           far:  {t, m, k, f}  observer = m * 10^k lattice units (m a    *)
(*                 small integer vector, k >= 1), local frame              *)
(***************************************************************************)
EXTENDS Physics, TLC, Json, IOUtils
VARIABLE x

Trace == ndJsonDeserialize(IOEnv.TRACE_FILE)

Pow8 == <<1, 8, 64, 512, 4096>>
Full(s) == Pow8[Len(s.fields) + 1] - 1
\* names of the fields with a non-finite component in mask m
BadFields(s, m) == {s.fields[i] : i \in {j \in 1..Len(s.fields) : (m \div Pow8[j]) % 8 # 7}}

\* the most specific special set of a local point (for localising findings); generic points of magnets by their class
Order15 == <<"position", "vertex", "corner", "rim", "wire", "edge", "axis", "centre", "r005", "edge-ext", "hull-ext", "base-ext", "ext",
             "r1", "r2", "phi1", "phi2", "z-face", "hull", "base", "surface", "face", "face-ext", "plane", "negx", "midplane">>
Locus15(b, xl, S) == LET hit == {i \in DOMAIN Order15 : Order15[i] \in S} IN
                     IF hit # {} THEN Order15[MinOf(hit)]
                     ELSE IF b.cls \in Magnets THEN Classify(b, xl) ELSE "generic"

Prop(s) == IF s.valid THEN "C15" ELSE "C17"
Ctx(s, locus, dir, k, fb, kb, detail) == <<s.body.cls, locus, dir, k, fb, kb, s.iface, s.scale, s.exc0, s.gen, detail, s.name>>

\* far points are never singular: m # 0 and 10^k exceeds every body of the catalogue (extent < 10 lattice units)
FarOK(p) == p.k >= 1 /\ V3(p.m) # Zero3

PointOut(s, b, p) ==
  IF s.kind = "far" THEN
       [bad |-> IF ~FarOK(p) THEN {<<p.t, "premise-far", "MACHINERY", Ctx(s, "far", "-", p.k, {}, {}, "")>>}
                ELSE IF \A v \in DOMAIN p.f : p.f[v] = Full(s) THEN {}
                ELSE IF \E v \in DOMAIN p.f : p.f[v] = -1 THEN {<<p.t, "timeout", Prop(s), Ctx(s, "far", FarDir(p.m), p.k, {}, {"exact"}, "")>>}
                ELSE IF \E v \in DOMAIN p.f : p.f[v] = -2 THEN {<<p.t, "exception", Prop(s), Ctx(s, "far", FarDir(p.m), p.k, {}, {"exact"}, s.exc)>>}
                ELSE {<<p.t, "nonfinite", Prop(s), Ctx(s, "far", FarDir(p.m), p.k, UNION {BadFields(s, p.f[v]) : v \in DOMAIN p.f}, {"exact"}, "")>>},
        cover |-> {<<s.body.cls, "far", FarDir(p.m), p.k>>}]
  ELSE LET xl == Local(s.pose, p.o)
           S == Sets(b, xl)
           tov == {v \in DOMAIN p.f : p.f[v] = -1}
           exv == {v \in DOMAIN p.f : p.f[v] = -2}
           badv == {v \in DOMAIN p.f : p.f[v] # Full(s) /\ p.f[v] >= 0}
       IN [bad |-> (IF badv = {} \/ Singular(b, xl) THEN {}
                    ELSE {<<p.t, "nonfinite", Prop(s), Ctx(s, Locus15(b, xl, S), "-", 0, UNION {BadFields(s, p.f[v]) : v \in badv}, {s.vk[v] : v \in badv}, "")>>})
                   \cup (IF tov = {} THEN {}      \* a singular point may be non-finite, but the call must still return
                         ELSE {<<p.t, "timeout", Prop(s), Ctx(s, Locus15(b, xl, S), "-", 0, {}, {s.vk[v] : v \in tov}, "")>>})
                   \cup (IF exv = {} THEN {}
                         ELSE {<<p.t, "exception", Prop(s), Ctx(s, Locus15(b, xl, S), "-", 0, {}, {s.vk[v] : v \in exv}, s.exc)>>}),
           cover |-> {<<s.body.cls, n, "-", 0>> : n \in S}]

ShapeBad(s) == {<<s.t0 + i, "shape", Prop(s), Ctx(s, "-", "-", 0, {}, {}, "probe")>> :
                  i \in {j \in DOMAIN s.shapes :
                           LET q == s.shapes[j] IN
                           q.shape # (IF q.core THEN <<q.n, 3>> ELSE FieldShape(q.n, q.asvector, q.squeeze))}}
SceneOut(s) ==
  IF s.valid /\ ~((IF s.degen THEN DegenerateOK(s.body) ELSE BodyOK(s.body)) /\ PoseOK(s.pose)) THEN [bad |-> {<<s.t0, "premise-body", "MACHINERY", Ctx(s, "-", "-", 0, {}, {}, "")>>}, cover |-> {}, n |-> 0]
  ELSE IF s.outcome = "timeout" THEN [bad |-> {<<s.t0, "timeout", Prop(s), Ctx(s, "-", "-", 0, {}, {}, "")>>}, cover |-> {}, n |-> 1]
  ELSE IF s.outcome = "exception" THEN [bad |-> {<<s.t0, "exception", Prop(s), Ctx(s, "-", "-", 0, {}, {}, s.exc)>>}, cover |-> {}, n |-> 1]
  ELSE LET b == Prep(s.body)
           r == [i \in 1..Len(s.pts) |-> PointOut(s, b, s.pts[i])] \o <<>>
           \* whole-box calls that did not return within the watchdog limit (variant indices in s.wd)
           hung == {<<s.t0 + 50 + i, "timeout", Prop(s), Ctx(s, "whole-box", "-", 0, {}, {s.vk[s.wd[i]]}, "")>> : i \in DOMAIN s.wd}
       IN [bad |-> ShapeBad(s) \cup hung \cup UNION {r[i].bad : i \in 1..Len(r)},
           cover |-> UNION {r[i].cover : i \in 1..Len(r)}, n |-> Len(r)]

\* one LET so that the trace is read once and every scene is evaluated exactly once
ASSUME LET tr == Trace
           out == [i \in 1..Len(tr) |-> SceneOut(tr[i])] \o <<>>
           RECURSIVE Sum(_, _)
           Sum(lo, hi) == IF lo > hi THEN 0 ELSE IF lo = hi THEN out[lo].n ELSE LET mid == (lo + hi) \div 2 IN Sum(lo, mid) + Sum(mid + 1, hi)
           bad == UNION {out[i].bad : i \in 1..Len(tr)}
       IN /\ PrintT(<<"validated", Sum(1, Len(tr)), "rejected", Cardinality(bad)>>)
          /\ \A r \in bad : PrintT(<<"REJECT", r[1], r[2], r[3], r[4]>>)
          /\ PrintT(<<"INFO", "cover", UNION {out[i].cover : i \in 1..Len(tr)}>>)
          /\ PrintT(<<"INFO", "degenerate", UNION {{<<tr[i].name, c[2]>> : c \in out[i].cover} : i \in {j \in 1..Len(tr) : tr[j].degen}}>>)
          /\ PrintT(<<"INFO", "needed", UNION {{<<tr[i].body.cls, n>> : n \in SpecialNames(tr[i].body.cls)} : i \in 1..Len(tr)}>>)
Init == x = 0
Next == x' = x
=============================================================================
