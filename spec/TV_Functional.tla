---------------------------- MODULE TV_Functional ----------------------------
(* Validator for C07.                                                                                          *)
(* kind "functional": {"tid","kind","cls","field","given":{param:{multi,n}},"outcome","nrows","rows":[[q12 x3]], *)
(*                     "oo":[[q12 x3]] (object-oriented single-instance calls, one per expected row), "fin": bool} *)
(* kind "form":       {"tid","kind","form","field","l","k","T": canonical tensor (q12), "alt": flat q12,        *)
(*                     "index": dataframe index rows or [], "outcome", "tol"}                                  *)
EXTENDS Functional, TLC, Json, IOUtils
VARIABLE x
Trace == ndJsonDeserialize(IOEnv.TRACE_FILE)
OK == <<"ok", "ok">>
TolRederived == 10000        \* 1e-8 of the gross scale in units of 1e-12 (inputs re-derived: other interface)
TolSame == 2                 \* 1e-12: identical inputs to the same core function
VerdictF(ev) ==
  LET N == Instances(ev.given) IN
  IF N = 0 THEN (IF ev.outcome = "bad_input" THEN OK ELSE IF ev.outcome = "ok" THEN <<"-", "IncompatibleAccepted">> ELSE <<"-", "IncompatibleForeignError">>)
  ELSE IF ev.outcome # "ok" THEN <<"C07", "ValidCallRejected">>
  ELSE IF ev.nrows # N THEN <<"C07", "RowCount">>
  ELSE IF ~ev.fin THEN <<"-", "NonFinite">>
  ELSE IF \E i \in 1..N : ~VecClose12(ev.rows[i], ev.oo[i], TolRederived) THEN <<"C07", "RowMismatch">>
  ELSE OK
\* tolerance decided by the spec: a call over fewer objects whose path axis is shorter does not tile the same paths (tiling rebuilds the
\* orientation and re-normalises its quaternions: inputs re-derived, 1e-8); every other form evaluates bit-identical inputs (1e-12)
FormTol(ev) == IF ev.form \in {"src_method", "sens_method", "sens_method_sumup"} /\ ev.malt < Len(ev.T[1]) THEN TolRederived ELSE TolSame
VerdictForm(ev) ==
  IF ev.outcome # "ok" THEN <<"C07", "FormRejected">>
  ELSE IF ev.malt < 1 \/ ev.malt > Len(ev.T[1]) THEN <<"C07", "FormPathLength">>
  ELSE IF ~CloseFlat(ev.alt, ExpectedFlat(ev.T, ev.form, ev.l, ev.k, ev.malt), FormTol(ev)) THEN <<"C07", "FormMismatch">>
  ELSE IF ~StaticBeyond(ev.T, ev.form, ev.l, ev.k, ev.malt, TolSame) THEN <<"C06", "StaticBeyondPath">>
  ELSE IF ev.form = "dataframe" /\ ev.index # DataframeIndex(ev.T) THEN <<"C07", "DataframeOrder">>
  ELSE OK
Verdict(ev) == IF ev.kind = "functional" THEN VerdictF(ev)
               ELSE VerdictForm(ev)
BadIdx == {i \in 1..Len(Trace) : Verdict(Trace[i])[1] # "ok"}
ASSUME PrintT(<<"validated", Len(Trace), "rejected", Cardinality(BadIdx)>>)
ASSUME \A i \in BadIdx : LET v == Verdict(Trace[i]) IN PrintT(<<"REJECT", Trace[i].tid, v[2], v[1], <<Trace[i].kind, Trace[i].what, Trace[i].outcome>>>>)
Init == x = 0
Next == x' = x
=============================================================================
