------------------------------ MODULE TV_Heap ------------------------------
(* Batch trace validator for property C18: observations logged from real magpylib objects around copy() and     *)
(* around every later mutation are judged with the requirement clauses of Heap.tla (the operators that TLC also *)
(* checks on every step of the model MC_Heap).                                                                  *)
(* Input (ndjson, IOEnv.TRACE_FILE), one line per scenario = a copy record + what follows:                      *)
(*  {tid, sc, root, cls, pre: <obs>, outcome, same_object, kwargs_intact, ren: {orig -> copy}, post: <obs>,     *)
(*   entries: [{kw, family, attr, val, text, leaf, isnone, call}], leaves: {pre, post, orig_post} (every style  *)
(*   leaf of original / copy), field: {have, q0, qo, qc, fin}, field_mismatch,                                  *)
(*   has2, copy2: a second copy record made by the caller with the SAME argument containers,                    *)
(*   steps: [{tid, op, target, side, others, args, mine, expect, outcome, obs: <obs>}]}                         *)
(*  <obs> = {kind, cls, parent, children, srcs, sens, colls, refs, pub, lab, sty} keyed by object name; the     *)
(*  node "ARGS" (kind "A") holds the keyword values of the caller: its cells are the caller's containers.       *)
EXTENDS Heap, Quant, Json, IOUtils
VARIABLE x

Trace == ndJsonDeserialize(IOEnv.TRACE_FILE)

Seqify(s) == [i \in 1..Len(s) |-> s[i]]
SeqMap(f) == [c \in DOMAIN f |-> Seqify(f[c])]
ObOf(j) == [kind |-> j.kind, parent |-> j.parent, children |-> SeqMap(j.children), srcs |-> SeqMap(j.srcs),
            sens |-> SeqMap(j.sens), colls |-> SeqMap(j.colls), refs |-> j.refs, pub |-> j.pub, lab |-> j.lab]

Entries(e) == {e.entries[i] : i \in DOMAIN e.entries}
\* keyword -> value the public attribute of the copy must show (label handled apart: it is not in pub)
OvrOf(e) == LET es == {n \in Entries(e) : n.family \notin {"label", "parent"}} IN
            [a \in {n.attr : n \in es} |-> (CHOOSE n \in es : n.attr = a).val]
\* what the keywords are entitled to change on the copy, as (original object, attribute) pairs:
\*   path keywords - the pose attributes of the whole subtree (compound motion) and with them the private buffers
\*   attribute keywords - the attribute, attributes stored or derived together with it, the private buffers of the root
\*   style keywords - the style of the root
FreeOf(e, pre) ==
    LET es == Entries(e)
        sub == OSub(pre, e.root)
    IN FreeByOverride(pre, e.root, OvrOf(e))
       \cup (IF \E n \in es : n.family = "path" THEN {<<y, "__dict__">> : y \in sub} ELSE {})
       \cup (IF \E n \in es : n.family = "attr" THEN {<<e.root, "__dict__">>} ELSE {})
       \cup (IF \E n \in es : n.family = "style" THEN {<<e.root, "style">>} ELSE {})

FieldSame(a, b) == Len(a) = Len(b) /\ \A i \in 1..Len(a) : Close8(a[i], b[i], 0)

\* the caller's argument node, when keywords were given
ArgsIn(ob) == {"ARGS"} \cap OObjs(ob)
\* style leaves addressed by a style keyword
FreeLeaves(e) == {n.leaf : n \in {n \in Entries(e) : n.family = "style"}}

\* <<property, clause>> of the first failing clause of a copy step, or <<"ok","ok">>.  e: a copy record
\* {sc, root, pre, post, outcome, same_object, kwargs_intact, ren, entries, leaves, field, field_mismatch}
\* the collection the caller asked the copy to join (keyword parent=...), None otherwise
ParOf(e) == LET ps == {n \in Entries(e) : n.family = "parent"} IN IF ps = {} THEN None ELSE (CHOOSE n \in ps : TRUE).val
\* errors the library raises for invalid input (style properties are rejected with AttributeError / ValueError)
InputErrors == {"exc:MagpylibBadUserInput", "exc:AttributeError", "exc:ValueError"}
CopyVerdict(e) ==
    IF e.outcome # "ok"
    THEN \* a call that must be rejected (invalid keyword value), or a subject that cannot be duplicated at all: copy() fails,
         \* but "leaves the original tree untouched" - and the collection given as parent, and the caller's arguments
         IF e.sc.uncopyable \/ e.sc.expect_raise
         THEN (IF ~RejectedCopyUntouched(ObOf(e.pre), ObOf(e.post)) THEN <<"C18", "OriginalUntouched">>
               ELSE IF e.sc.expect_raise /\ e.outcome \notin InputErrors THEN <<"-", "ForeignException">>
               ELSE <<"ok", "ok">>)
         ELSE <<"C18", "CopyReturns">>
    ELSE IF e.sc.expect_raise THEN <<"-", "RejectedKeywordAccepted">>
    ELSE IF e.same_object THEN <<"C18", "CopyIsNewObject">>
    ELSE LET pre == ObOf(e.pre)
             post == ObOf(e.post)
             o == e.root
             c == e.ren[o]
             A == ArgsIn(pre)
             cl == CopyClause(pre, post, o, e.ren, OvrOf(e), FreeOf(e, pre), A, ParOf(e))
             labs == {n \in Entries(e) : n.family = "label"}
         IN IF cl \notin {"ok", "ArgumentsNotAliased"} THEN <<"C18", cl>>
            ELSE IF \E x1 \in OSub(pre, o) : e.post.cls[e.ren[x1]] # e.pre.cls[x1] THEN <<"C18", "SameClass">>
            ELSE IF \E n \in labs : (IF n.isnone THEN ~post.lab[c].none ELSE (post.lab[c].none \/ post.lab[c].text # n.val)) THEN <<"C18", "OverridesOnlyCopy">>
            \* every style value the keywords do not address is the original's (a keyword given to another copy included)
            ELSE IF ~AttrsEqualExcept(e.leaves.pre, e.leaves.post, FreeLeaves(e)) THEN <<"C18", "StyleLeavesOnlyOverrides">>
            ELSE IF e.leaves.orig_post # e.leaves.pre THEN <<"C18", "OriginalUntouched">>
            ELSE IF e.field_mismatch THEN <<"C18", "SameField">>
            ELSE IF e.field.have /\ e.field.fin /\ ~FieldSame(e.field.qo, e.field.q0) THEN <<"C18", "OriginalFieldUntouched">>
            ELSE IF e.field.have /\ e.field.fin /\ (\A n \in Entries(e) : n.family \in {"style", "label"})
                    /\ ~FieldSame(e.field.qc, e.field.qo) THEN <<"C18", "SameField">>
            ELSE IF labs = {} /\ ~LabelIterOK(pre.lab[o], post.lab[c], e.pre.sty[o], e.pre.cls[o]) THEN <<"-", "LabelIteration">>
            ELSE IF cl = "ArgumentsNotAliased" THEN <<"-", "ArgumentsNotAliased">>
            ELSE IF ~e.kwargs_intact THEN <<"C18", "ArgumentsUntouched">>
            ELSE <<"ok", "ok">>

\* a later change applied to one side: every object of the other side is exactly as before and still unshared; the
\* caller's argument containers are not reached either (and a change of them by the caller reaches no object)
StepVerdict(prej, s) ==
    LET pre == ObOf(prej)
        post == ObOf(s.obs)
        others == {s.others[i] : i \in DOMAIN s.others}
        args == {s.args[i] : i \in DOMAIN s.args}
        rest == (OObjs(post) \ others) \ args
    IN IF ~IndependentStep(pre, post, others) THEN (IF s.side = "args" THEN <<"-", "ArgumentsIndependent">> ELSE <<"C18", "Independence">>)
       ELSE IF rest # {} /\ CellsOf(post, others) \cap CellsOf(post, rest) # {}
            THEN (IF s.side = "args" THEN <<"-", "ArgumentsNotAliased">> ELSE <<"C18", "NoSharingAfter">>)
       ELSE IF ~IndependentStep(pre, post, args) THEN <<"-", "ArgumentsIndependent">>
       ELSE <<"ok", "ok">>
\* the change was visible on the side it was applied to (otherwise the step shows nothing)
Effective(prej, s) == LET pre == ObOf(prej) post == ObOf(s.obs) IN
    \E y \in {s.mine[i] : i \in DOMAIN s.mine} : y \notin OObjs(pre) \/ ObjObs(post, y) # ObjObs(pre, y)

LastPost(e) == IF e.has2 THEN e.copy2.post ELSE e.post
PreOf(e, k) == IF k = 1 THEN LastPost(e) ELSE e.steps[k - 1].obs
HasSteps(e) == e.outcome = "ok" /\ ~e.same_object /\ Len(e.steps) > 0
BadOf(i) == LET e == Trace[i]
                cv == CopyVerdict(e)
                cv2 == IF e.has2 THEN CopyVerdict(e.copy2) ELSE <<"ok", "ok">>
            IN (IF cv[1] # "ok" THEN {<<e.tid, cv, "copy", e.sc.subject, e.sc.kwtag, e.sc.mode>>} ELSE {})
               \cup (IF cv2[1] # "ok" THEN {<<e.copy2.tid, cv2, "copy2", e.sc.subject, e.sc.kwtag, e.sc.mode>>} ELSE {})
               \cup (IF HasSteps(e)
                     THEN {<<e.steps[k].tid, StepVerdict(PreOf(e, k), e.steps[k]), e.steps[k].op, e.sc.subject, e.steps[k].target, e.steps[k].side>> :
                              k \in {k \in 1..Len(e.steps) : StepVerdict(PreOf(e, k), e.steps[k])[1] # "ok"}}
                     ELSE {})
InfoOf(i) == LET e == Trace[i] IN
             IF HasSteps(e)
             THEN {<<e.steps[k].tid, e.steps[k].op, e.sc.subject, e.steps[k].target, e.steps[k].outcome>> :
                      k \in {k \in 1..Len(e.steps) : e.steps[k].expect /\ (e.steps[k].outcome # "ok" \/ ~Effective(PreOf(e, k), e.steps[k]))}}
             ELSE {}
RECURSIVE CountRange(_, _)
CountRange(lo, hi) == IF lo > hi THEN 0 ELSE IF lo = hi THEN 1 + (IF Trace[lo].has2 THEN 1 ELSE 0) + Len(Trace[lo].steps)
                      ELSE LET mid == (lo + hi) \div 2 IN CountRange(lo, mid) + CountRange(mid + 1, hi)
AllBad == UNION {BadOf(i) : i \in 1..Len(Trace)}
AllInfo == UNION {InfoOf(i) : i \in 1..Len(Trace)}
ASSUME PrintT(<<"validated", CountRange(1, Len(Trace)), "rejected", Cardinality(AllBad)>>)
ASSUME \A b \in AllBad : PrintT(<<"REJECT", b[1], b[2][2], b[2][1], <<b[3], b[4], b[5], b[6]>>>>)
ASSUME \A b \in AllInfo : PrintT(<<"INFO", "ineffective", b[1], b[2], b[3], b[4], b[5]>>)
Init == x = 0
Next == x' = x
=============================================================================
