----------------------------- MODULE TV_Inputs -----------------------------
(* Batch validator for C17: every logged constructor / setter trial is judged with Inputs!Decide.              *)
(* Input (ndjson, IOEnv.TRACE_FILE), one event per line:                                                       *)
(*   {tid, cls, attr, src, form, d: {kind, shape, entries, geom, ints},                                            *)
(*    ctor: T, set: T, agree: BOOLEAN, pair: BOOLEAN}                                                           *)
(*   T = {oclass: "ok"|"bad_input"|"missing"|"exc"|"na", exc: <type name>, rb: {kind, shape, dtype},           *)
(*        equal, alias, mutvis, unchanged: BOOLEAN, later: "ok"|"nonfinite"|"magpylib"|"foreign"|"na", later_exc} *)
(* Every failing clause of an event is reported (one REJECT line per clause and trial).                        *)
EXTENDS Inputs, TLC, Json, IOUtils
VARIABLE x

Trace == ndJsonDeserialize(IOEnv.TRACE_FILE)
Seqify(s) == [i \in 1..Len(s) |-> s[i]]
DescOf(j) == [kind |-> j.kind, shape |-> Seqify(j.shape), entries |-> j.entries, geom |-> j.geom, ints |-> j.ints]

Tag(d) == IF d.doc THEN "C17" ELSE "-"
\* the three outcome classes that constructor and setter must share
OutClass(t) == IF t.oclass \in {"bad_input", "missing"} THEN "rejected" ELSE t.oclass

\* failing clauses of one trial: set of <<clause, property>>
TrialBad(d, t, via) ==
       \* "raise the library's input error": any other exception class at the assignment
       (IF t.oclass = "exc" THEN {<<"InputErrorType", Tag(d)>>} ELSE {})
       \* a malformed value went through
  \cup (IF ~d.accept /\ t.oclass = "ok" THEN {<<"MalformedAccepted", Tag(d)>>} ELSE {})
       \* a value of the documented format was refused with the input error (stricter than the property: "-")
  \cup (IF d.accept /\ t.oclass \in {"bad_input", "missing"} THEN {<<"DocumentedFormatRefused", "-">>} ELSE {})
       \* "... and leave the object unchanged"
  \cup (IF via = "setter" /\ t.oclass \notin {"ok", "na"} /\ ~t.unchanged THEN {<<"RejectUnchanged", Tag(d)>>} ELSE {})
       \* accepted values are stored as independent floating-point copies and read back equal
  \cup (IF d.accept /\ t.oclass = "ok" THEN
             (IF t.rb.kind # d.kind \/ Seqify(t.rb.shape) # d.shape THEN {<<"StoredShape", Tag(d)>>} ELSE {})
        \cup (IF d.dtype = "f" /\ t.rb.dtype # "f" THEN {<<"StoredFloat", Tag(d)>>} ELSE {})
        \cup (IF d.dtype = "i" /\ t.rb.dtype # "i" THEN {<<"StoredIndexType", "-">>} ELSE {})
        \cup (IF ~t.equal THEN {<<"ReadBackEqual", Tag(d)>>} ELSE {})
        \cup (IF t.alias THEN {<<"NoAlias", Tag(d)>>} ELSE {})
        \cup (IF t.mutvis THEN {<<"MutationInvisible", Tag(d)>>} ELSE {})
        ELSE {})
       \* "no accepted object later fails inside a field computation with an internal error"
  \cup (IF t.oclass = "ok" /\ t.later = "foreign" THEN {<<"LaterNoInternalError", "C17">>} ELSE {})
       \* not C17: a finite input giving a non-finite field is the subject of C15
  \cup (IF t.oclass = "ok" /\ t.later = "nonfinite" THEN {<<"LaterFinite", "C15">>} ELSE {})

Ctx(e, via, t) == <<e.cls, e.attr, via, IF t.oclass = "exc" THEN t.exc ELSE t.oclass, e.d.kind, e.d.entries, e.d.geom,
                    IF t.later = "foreign" THEN t.later_exc ELSE t.later>>

BadOf(i) == LET e == Trace[i]
                d == Decide(e.cls, e.attr, DescOf(e.d))
                cb == TrialBad(d, e.ctor, "ctor")
                sb == IF e.set.oclass = "na" THEN {} ELSE TrialBad(d, e.set, "setter")
                \* "identically through constructor and setter"
                ab == IF e.set.oclass # "na" /\ (OutClass(e.ctor) # OutClass(e.set) \/ ~e.agree)
                      THEN {<<"CtorSetterAgree", Tag(d)>>} ELSE {}
                \* polarization and magnetization are None together (C02, reported here as nonconformance)
                pb == IF Paired(e.attr) /\ ~e.pair THEN {<<"PairConsistent", "C02">>} ELSE {}
            IN {<<e.tid, b[1], b[2], Ctx(e, "ctor", e.ctor)>> : b \in cb}
          \cup {<<e.tid, b[1], b[2], Ctx(e, "setter", e.set)>> : b \in sb \cup pb}
          \cup {<<e.tid, b[1], b[2], Ctx(e, "both", e.set)>> : b \in ab}

AllBad == UNION {BadOf(i) : i \in 1..Len(Trace)}
ASSUME PrintT(<<"validated", Len(Trace), "rejected", Cardinality(AllBad)>>)
ASSUME \A b \in AllBad : PrintT(<<"REJECT", b[1], b[2], b[3], b[4]>>)
Init == x = 0
Next == x' = x
=============================================================================
