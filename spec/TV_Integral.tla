---------------------------- MODULE TV_Integral ----------------------------
(* Batch validator of measured law instances (ndjson, IOEnv.TRACE_FILE), one event per line:         *)
(*  {"tid", "prop": "C14"|"C01", "kappa": "id"|"rnd", "inst": {law, fam, scene, ch, lo, hi, full, edges, ...}, *)
(*   "der": {faces, brk, ebrk},              what the harness integrated over (taken from the plan)   *)
(*   "meas": {"q": [hi, lo], "fin": bool},   measured integral / gross scale, unit 1e-12              *)
(*   "qerr": int,                            |order 16 - order 32| / gross, unit 1e-12 (capped)       *)
(*   "qppm": [int, int], "sub": int,         error estimate before / after refinement in 1e-6; level  *)
(*   "amp": {"big": bool, "q": [hi, lo]}}    one ampere / gross scale, unit 1e-12 (circulation only) *)
(* The premise and the derived data are re-computed exactly from the logged instance; the expected   *)
(* value (0, or Sum I*Lk amperes) is computed here and nowhere else.                                 *)
EXTENDS Integral, Json, IOUtils
VARIABLE x

Trace == ndJsonDeserialize(IOEnv.TRACE_FILE)

TolNear12 == 100000       \* Tol_Int = 1e-7 of the gross scale (DESIGN 3.4), in units of 1e-12
TolFar12 == 10000000      \* 1e-5 when every source is farther than 10 of its sizes (documented loss of accuracy at large distances)
QErrMax12 == 10000        \* instances whose own quadrature error estimate exceeds 1e-8 are unmeasurable
\* Information only (never a verdict): an error estimate that stays above 1e-6 and is not even halved by refining every
\* piece suggests that the returned values are not a piecewise smooth field there (noise, jumps off the listed surfaces).
\* "qppm": <<before, after>> = the two error estimates in units of 1e-6 of the gross scale (never capped)
NotSmooth(e) == e.sub > 1 /\ e.qppm[2] >= 1 /\ 2 * e.qppm[2] >= e.qppm[1]

Seqify(s) == [i \in 1..Len(s) |-> s[i]]
V3(v) == <<v[1], v[2], v[3]>>
M3(m) == <<V3(m[1]), V3(m[2]), V3(m[3])>>
SrcOf(j) == [cls |-> j.cls, R |-> M3(j.R), p |-> V3(j.p), dim |-> Seqify(j.dim), exc |-> Seqify(j.exc), verts |-> [i \in 1..Len(j.verts) |-> V3(j.verts[i])]]
ChOf(j) == [type |-> j.type, R |-> M3(j.R), p |-> V3(j.p), o |-> V3(j.o), e |-> M3(j.e), n |-> j.n]
EdgesOf(j) == [i \in 1..Len(j) |-> <<V3(j[i][1]), V3(j[i][2])>>]
SceneOf(j) == [i \in 1..Len(j) |-> SrcOf(j[i])]

FluxVerdict(e) ==
  LET i == e.inst
      scene == SceneOf(i.scene)
      ch == ChOf(i.ch)
      lo == V3(i.lo)
      hi == V3(i.hi)
      full == <<i.full[1], i.full[2], i.full[3]>>
      q == e.meas.q
      TolInt12 == IF AllFarCell(scene, ch, lo, hi) THEN TolFar12 ELSE TolNear12
  IN IF ~FluxPremise(scene, ch, lo, hi, full) THEN <<"machinery", "Premise">>
     ELSE IF Seqify(e.der.faces) # Faces(ch, lo, hi, full) THEN <<"machinery", "Faces">>
     ELSE IF \E k \in 1..3 : Range(e.der.brk[k]) # CellBreaks(scene, ch, lo, hi)[k] THEN <<"machinery", "Breaks">>
     ELSE IF ~e.meas.fin THEN <<e.prop, "FiniteIntegrand">>
     ELSE IF e.qerr > QErrMax12 THEN <<"unmeasurable", IF NotSmooth(e) THEN "Rough" ELSE "QuadratureError">>
     ELSE IF Abs(q[1]) > 20 \/ Abs(q[1] * 1000000 + q[2]) > TolInt12 THEN <<e.prop, "FluxZero">>
     ELSE <<"ok", "ok">>

CircVerdict(e) ==
  LET i == e.inst
      scene == SceneOf(i.scene)
      ch == ChOf(i.ch)
      edges == EdgesOf(i.edges)
      q == e.meas.q
      a == e.amp.q
      TolInt12 == IF AllFar(scene, ch, LoopVerts(edges)) THEN TolFar12 ELSE TolNear12
  IN IF ~CircPremise(scene, ch, edges) THEN <<"machinery", "Premise">>
     ELSE IF Len(e.der.ebrk) # Len(edges) \/ \E k \in 1..Len(edges) : ~SameFracs(Range(e.der.ebrk[k]), EdgeBreaks(scene, ch, edges[k][1], edges[k][2]))
          THEN <<"machinery", "Breaks">>
     ELSE IF ~e.meas.fin THEN <<e.prop, "FiniteIntegrand">>
     ELSE IF e.qerr > QErrMax12 THEN <<"unmeasurable", IF NotSmooth(e) THEN "Rough" ELSE "QuadratureError">>
     ELSE LET E == ExpCirc(scene, ch, edges) IN
          IF E = 0 THEN (IF Abs(q[1]) > 20 \/ Abs(q[1] * 1000000 + q[2]) > TolInt12 THEN <<e.prop, "CirculationZero">> ELSE <<"ok", "ok">>)
          ELSE IF e.amp.big THEN <<e.prop, "CirculationCurrent">>            \* gross < 0.01 A although |I*Lk| >= 1 A
          ELSE IF Abs(q[1] - E * a[1]) > 20 THEN <<e.prop, "CirculationCurrent">>
          ELSE IF Abs((q[1] - E * a[1]) * 1000000 + (q[2] - E * a[2])) > TolInt12 THEN <<e.prop, "CirculationCurrent">>
          ELSE <<"ok", "ok">>

(* point laws (C01): "obs": {"q": [q1,q2,q3], "fin": [b,b,b]} = the returned field after the unit conversion der.norm, in  *)
(* units of 1e-8 of der.gross; norm and gross are re-computed here, the expected integer vector N only exists here.       *)
PointVerdict(e) ==
  LET i == e.inst
      pt == [kind |-> i.pt.kind, src |-> SrcOf(i.scene[1]), obs |-> V3(i.pt.obs), field |-> i.pt.field, rho |-> i.pt.rho]
  IN IF pt.kind = "harmonic" THEN
       (IF Len(i.scene) # 1 \/ ~HarmPremise(pt) THEN <<"machinery", "Premise">>
        ELSE IF Len(e.obs7.q) # 7 \/ \E j \in 1..7 : \E k \in 1..3 : ~e.obs7.fin[j][k] THEN <<e.prop, "FiniteField">>
        ELSE IF \A k \in 1..3 : Abs(HarmResidual(e.obs7.q, k)) <= HarmTol8(pt) THEN <<"ok", "ok">>
        ELSE <<e.prop, "MeanValue">>)
     ELSE IF Len(i.scene) # 1 \/ ~PointPremise(pt) THEN <<"machinery", "Premise">>
     ELSE IF Seqify(e.der.norm) # PointNorm(pt) \/ e.der.gross # PointGross(pt) THEN <<"machinery", "Norm">>
     ELSE IF \E k \in 1..3 : ~e.obs.fin[k] THEN <<e.prop, "FiniteField">>
     ELSE LET N == PointExpected(pt)
              G == PointGross(pt)
              tol == PointTol8(pt)
          IN IF \A k \in 1..3 : Abs(e.obs.q[k] - Quant8(N[k], G)) <= tol THEN <<"ok", "ok">>
             ELSE <<e.prop, CASE pt.kind = "dipole" -> "DipoleFormula" [] pt.kind = "sphere_out" -> "SphereOutside"
                              [] pt.kind = "sphere_in" -> "SphereInside" [] OTHER -> "FarField">>

Verdict(e) == IF e.inst.law = "flux" THEN FluxVerdict(e) ELSE IF e.inst.law = "circ" THEN CircVerdict(e)
              ELSE IF e.inst.law = "point" THEN PointVerdict(e) ELSE <<"machinery", "UnknownLaw">>

BadOf(i) == LET e == Trace[i]
               v == Verdict(e)
           IN IF v[1] = "ok" THEN {} ELSE {<<e.tid, v, e.inst.law, e.inst.fam, e.kappa>>}
AllBad == UNION {BadOf(i) : i \in 1..Len(Trace)}
Rejected == {b \in AllBad : b[2][1] # "unmeasurable"}
ASSUME PrintT(<<"validated", Len(Trace), "rejected", Cardinality(Rejected)>>)
ASSUME \A b \in Rejected : PrintT(<<"REJECT", b[1], b[2][2], b[2][1], <<b[3], b[4], b[5]>>>>)
ASSUME \A b \in AllBad \ Rejected : PrintT(<<"INFO", "unmeasurable", b[1], b[4], b[2][2]>>)
Init == x = 0
Next == x' = x
=============================================================================
