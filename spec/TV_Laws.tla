------------------------------ MODULE TV_Laws ------------------------------
(* Batch validator for law instances logged by harness/drivers/laws.py (ndjson, IOEnv.TRACE_FILE).       *)
(* One line per transition of the MC_Laws state graph (or simulated behaviour step):                      *)
(*   {"tid", "pre": cfg, "act": act, "post": cfg, "kappa": {"decade": d},                                 *)
(*    "fine": {"e": 0 | 5 | 6 | 7} (0: lattice poses, q8 values; e > 0: small-angle image with increments    *)
(*            scaled by 10^-e, two-limb values),                                                           *)
(*    "mesh": {"b": [status per source], "a": [...]},                                                     *)
(*    "obs": [ per observer {"B": ob, "H": ob, "J": ob, "jin": {"b": [[bool]], "a": [[bool]]}} ]}         *)
(*   ob == {"b": before[s][i] (3 integers, or 3 two-limb pairs for C13), "a": after, "xs": decade shift    *)
(*          of the scale of `after`, "fin": all values finite}; for Convert/Polygon                        *)
(*          {"c": circle[i], "p": [polygon_N[i] : N = 16, 64, 256], "fin"}                                 *)
(* Per event the premise is re-checked exactly from the logged abstract configurations (clause "premise", *)
(* property "-": a false premise is a failure of the machinery); then, per observer, the conclusion of    *)
(* the law with the tolerance of its distance class (decided here from the integer coordinates).          *)
EXTENDS Laws, TLC, Json, IOUtils
VARIABLE x

Trace == ndJsonDeserialize(IOEnv.TRACE_FILE)

PropOf(act) == CASE act.name \in {"RigidMove", "Reconcretize", "Freeze"} -> "C03"
                 [] act.name \in {"Rescale", "ScaleExc"} -> "C12"
                 [] OTHER -> "C13"
ClsOf(e) == IF "i" \in DOMAIN e.act THEN (IF e.act.name = "Merge" THEN e.post.srcs[e.act.i].cls ELSE e.pre.srcs[e.act.i].cls)
            ELSE IF Len(e.pre.srcs) = 1 THEN e.pre.srcs[1].cls
            ELSE IF Len(e.pre.srcs) = 2 THEN e.pre.srcs[1].cls \o "+" \o e.pre.srcs[2].cls ELSE "Several"
RepOf(e) == IF "rep" \in DOMAIN e.act THEN e.act.rep
            ELSE IF "kind" \in DOMAIN e.act THEN e.act.kind
            ELSE IF "op" \in DOMAIN e.act THEN e.act.op
            ELSE IF "via" \in DOMAIN e.act THEN e.act.via
            ELSE IF e.pre.sens.on THEN "sensor"
            ELSE IF \E s \in 1..Len(e.pre.srcs) : e.pre.srcs[s].rep \notin {"", "ctor"}
                 THEN e.pre.srcs[CHOOSE s \in 1..Len(e.pre.srcs) : e.pre.srcs[s].rep \notin {"", "ctor"}].rep
            ELSE "points"
DecadeOf(e) == e.kappa.decade + e.post.k

IsPolygon(act) == act.name = "Convert" /\ act.rep = "Polygon"
\* verdict for one observer and one field: "ok" or the failing clause
FieldVerdict(e, j, f, dist) ==
  LET ob == e.obs[j][f]
      act == e.act
  IN IF ~ob.fin THEN "NonFinite"
     ELSE IF IsPolygon(act) THEN
            LET e1 == MaxDev(ob.c, ob.p[1])  e2 == MaxDev(ob.c, ob.p[2])  e3 == MaxDev(ob.c, ob.p[3])
            IN IF RateOK(e1, e2) /\ RateOK(e2, e3) /\ e3 < e1 THEN "ok" ELSE "PolygonRate"
     ELSE IF e.fine.e > 0 THEN
            \* small-angle image of the paths: two-limb values; the value law at 1e-8 / 1e-5 and the law of the CHANGE along the path
            LET g == IF act.name = "RigidMove" /\ ~e.pre.sens.on THEN M3(act.g) ELSE IdM IN
            CASE act.name = "Freeze" -> (IF PlacementConclusion12(ob, act.m, Tol12(dist)) THEN "ok" ELSE "Placement")
              [] act.name \in {"RigidMove", "Reconcretize"} ->
                   (IF ~MoveConclusion12(ob, g, Tol12(dist)) THEN (IF act.name = "RigidMove" THEN "Covariance" ELSE "KappaInvariance")
                    ELSE IF dist = "near" /\ f # "J" /\ ~ChangeConclusion12(ob, g, TolChange12(e.fine.e)) THEN "PathChange" ELSE "ok")
              [] OTHER -> "UnknownLaw"
     ELSE CASE act.name = "RigidMove" ->
                 (IF MoveConclusion(ob, IF e.pre.sens.on THEN IdM ELSE M3(act.g), Tol8(dist)) THEN "ok" ELSE "Covariance")
            [] act.name = "Reconcretize" -> (IF MoveConclusion(ob, IdM, Tol8(dist)) THEN "ok" ELSE "KappaInvariance")
            [] act.name = "Freeze" -> (IF PlacementConclusion(ob, act.m, Tol8(dist)) THEN "ok" ELSE "Placement")
            [] act.name = "Rescale" ->
                 (IF ~ExpOK(ob, IF f = "J" THEN 0 ELSE LenExp(e.pre.srcs[1]) * act.k) THEN "RescaleExponent"
                  ELSE IF ScaleConclusion(ob, 1, Tol8(dist)) THEN "ok" ELSE "RescaleValue")
            [] act.name = "ScaleExc" ->
                 (IF ~ExpOK(ob, act.a) THEN "ExcExponent"
                  ELSE IF ScaleConclusion(ob, act.m, Tol8(dist)) THEN "ok" ELSE "ExcLinear")
            [] act.name \in {"Split", "SplitSeg", "Merge"} ->
                 (IF SumConclusion(ob, PathLen(e.pre), Tol12(dist)) THEN "ok" ELSE "PartitionSum")
            [] act.name = "Convert" -> (IF SumConclusion(ob, PathLen(e.pre), Tol12(dist)) THEN "ok" ELSE "Representation")
            [] act.name = "Op" -> (IF SumConclusion(ob, PathLen(e.pre), Tol12(dist)) THEN "ok" ELSE "UseInvariance")
            [] OTHER -> "UnknownLaw"
FieldOrder == <<"B", "H", "J">>
\* <<clause, field>> of the first failing claimed field of observer j, then the inside/outside pattern (C12)
ObsVerdict(e, j, dist) ==
  LET vs == [c \in 1..3 |-> IF FieldOrder[c] \in Claims(e.act) THEN FieldVerdict(e, j, FieldOrder[c], dist) ELSE "ok"]
      bad == {c \in 1..3 : vs[c] # "ok"}
  IN IF bad # {} THEN LET c == MinS(bad) IN <<vs[c], FieldOrder[c]>>
     ELSE IF PropOf(e.act) = "C12" /\ e.obs[j].jin.a # e.obs[j].jin.b THEN <<"InsideClass", "J">>
     ELSE <<"ok", "-">>
\* the J pattern at the reference must also be the exact inside/outside class (beyond C12: tagged "-")
TruthOK(e, j) == PropOf(e.act) # "C12" \/ \A s \in 1..Len(e.pre.srcs) : \A i \in 1..PathLen(e.pre) :
                    e.obs[j].jin.b[s][i] = (e.pre.srcs[s].cls \in Magnets /\ InsideClass(e.pre, s, j, i) = "in")
\* observation not identically zero (a non-trivial instance)
NonTrivial(e, j) == LET ob == e.obs[j].B IN
                    IF IsPolygon(e.act) THEN TRUE
                    ELSE IF PropOf(e.act) = "C13" \/ e.fine.e > 0 THEN \E s \in 1..Len(ob.b) : \E i \in 1..Len(ob.b[s]) : \E c \in 1..3 : ob.b[s][i][c][1] # 0
                    ELSE ~AllZeroOb(ob.b)

PremiseOK(e) == /\ Premise(e.pre, e.act, e.post) /\ (PropOf(e.act) = "C12" => LabelsOK(e.pre))
                \* small-angle image: the observers are strictly off the surfaces of the limit configuration too
                /\ (e.fine.e > 0 => e.fine.e \in 5..7 /\ FinePremise(e.pre) /\ (e.act.name # "Freeze" => FinePremise(e.post)))
\* context of a rejection: law, class, representation / observer mode, observer class, distance class, decade of the lattice
\* unit after the step, field, smallest decade involved (before or after the step)
Ctx(e, lab, dist, f) == <<e.act.name, ClsOf(e), RepOf(e), lab, dist, DecadeOf(e), f, Min2(DecadeOf(e), e.kappa.decade + e.pre.k)>>
\* everything about event i, evaluated once: rejected sub-instances <<tid, clause, property, context>> and the cells it covers
Row(e, j) == LET dist == DistClass(e.pre, e.post, j)
                 v == ObsVerdict(e, j, dist)
             IN [j |-> j, dist |-> dist, lab |-> e.pre.obs[j].lab, v |-> v,
                 truth |-> (IF v[1] = "ok" THEN TruthOK(e, j) ELSE TRUE), nt |-> NonTrivial(e, j)]
PerEvent(i) ==
  LET e == Trace[i] IN
  IF ~PremiseOK(e) THEN [bad |-> {<<e.tid * 100, "premise", "-", Ctx(e, "-", "-", "-")>>}, cells |-> {}]
  ELSE LET rows == {Row(e, j) : j \in 1..Len(e.obs)}
           prop == PropOf(e.act)
       IN [bad |-> (IF prop = "C12" /\ e.mesh.a # e.mesh.b THEN {<<e.tid * 100, "MeshStatus", "C12", Ctx(e, "-", "-", "-")>>} ELSE {})
                   \cup {<<e.tid * 100 + r.j, r.v[1], IF r.v[1] = "NonFinite" THEN "-" ELSE prop, Ctx(e, r.lab, r.dist, r.v[2])>> :
                            r \in {r \in rows : r.v[1] # "ok"}}
                   \cup {<<e.tid * 100 + r.j, "InsideTruth", "-", Ctx(e, r.lab, r.dist, "J")>> : r \in {r \in rows : ~r.truth}},
           cells |-> {<<e.act.name, ClsOf(e), RepOf(e), r.lab, r.dist, DecadeOf(e)>> : r \in {r \in rows : r.nt}}]
Results == [i \in 1..Len(Trace) |-> PerEvent(i)]
RECURSIVE CountRange(_, _)
CountRange(lo, hi) == IF lo > hi THEN 0 ELSE IF lo = hi THEN Len(Trace[lo].obs) + 1
                      ELSE LET mid == (lo + hi) \div 2 IN CountRange(lo, mid) + CountRange(mid + 1, hi)
AllBad == UNION {Results[i].bad : i \in 1..Len(Trace)}
ASSUME PrintT(<<"validated", CountRange(1, Len(Trace)), "rejected", Cardinality(AllBad)>>)
ASSUME \A b \in AllBad : PrintT(<<"REJECT", b[1], b[2], b[3], b[4]>>)
ASSUME PrintT(<<"INFO", "cells", UNION {Results[i].cells : i \in 1..Len(Trace)}>>)
Init == x = 0
Next == x' = x
=============================================================================
