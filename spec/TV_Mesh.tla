------------------------------ MODULE TV_Mesh ------------------------------
(* Batch validator for constructions of the real magpylib TriangularMesh (harness/drivers/mesh.py).            *)
(* Input (ndjson, IOEnv.TRACE_FILE), one event per line.  Three event types:                                   *)
(*  "mesh": one construction.  verts_in / verts (lattice integers given / stored, kappa undone), faces_in /     *)
(*          faces_out (1-based), the                                                                            *)
(*          status flags, kind/base (how the harness built the input - information only, the ground truth is   *)
(*          computed from verts/faces_in), unit (lattice unit = 1 m) and decade of the lattice unit, and for    *)
(*          closed variants of a base body the field observations at the observers declared in Mesh.tla:        *)
(*          B, H of this variant, B0, H0 of the base mesh as written in Mesh.tla under the same kappa, Bid, Hid *)
(*          of the base mesh at kappa = id (fixed point, unit 1e-8 of the gross scale, harness/quant.py).       *)
(*  "call2": one getB/getH call with two different meshes against the two single calls (Bj/Hj joint, Bs/Hs).    *)
(*  "mode": what check mode "warn" / "raise" reported for a mesh.                                               *)
(*  "life": a history of one object built without normalisation: use / checks, reorient_faces(), use again.    *)
(* Verdict(e) = <<property, clause, context>>; property "C16" for failures at the lattice unit 1 m, "C12" when  *)
(* the lattice unit differs from 1 m (the same abstract mesh is judged at every scale), "C06" for the two-mesh  *)
(* call, "-" for behaviour beyond the property, "machinery" if the harness logged an instance whose premise is  *)
(* false.                                                                                                        *)
EXTENDS Mesh, Quant, TLC, Json, IOUtils
VARIABLE x

Trace == ndJsonDeserialize(IOEnv.TRACE_FILE)

Tol8 == 2          \* DESIGN 3.4: 1e-8 of the gross scale (1 quantum) + 1 quantum for the rounding of the two logged values

Seqify(s) == [i \in 1..Len(s) |-> s[i]]
VSeq(a) == [i \in 1..Len(a) |-> <<a[i][1], a[i][2], a[i][3]>>]
Prop(e) == IF e.unit THEN "C16" ELSE "C12"
Ok == <<"ok", "ok", <<>>>>

\* ---------------------------------------------------------------- field comparison
\* largest componentwise deviation between two (n x 3) tables and where it occurs
Dev(a, b, i) == Max2(Max2(Abs(a[i][1] - b[i][1]), Abs(a[i][2] - b[i][2])), Abs(a[i][3] - b[i][3]))
BadRows(a, b) == {i \in 1..Len(a) : Dev(a, b, i) > Tol8}
AllFin(f) == \A i \in 1..Len(f) : f[i][1] /\ f[i][2] /\ f[i][3]
StretchSet(st, S) == {Stretch3(st, q) : q \in S}
Region(base, st, p) == IF p \in StretchSet(st, ObsIn(base)) THEN "inside" ELSE "outside"
Regions(base, st, obs, rows) == {Region(base, st, obs[i]) : i \in rows}
RegionName(S) == IF S = {"inside"} THEN "inside" ELSE IF S = {"outside"} THEN "outside" ELSE "both"

\* V: the vertices with the stretch divided out; the observers are the declared ones under the same stretch
FieldVerdict(e, V, F) ==
  LET fl == e.field
      b == e.base
      st == e.stretch
      obs == VSeq(fl.obs)
  IN IF ~(b \in BaseNames) THEN <<"machinery", "premise_base", <<b>>>>
     ELSE IF ~SameBody(V, F, BaseMesh(b).v, BaseMesh(b).f) THEN <<"machinery", "premise_samebody", <<b>>>>
     ELSE IF ~({obs[i] : i \in 1..Len(obs)} = StretchSet(st, ObsIn(b) \cup ObsOut(b)) /\ Len(obs) = Cardinality(ObsIn(b) \cup ObsOut(b)) /\ fl.den = ObsDen)
          THEN <<"machinery", "premise_observers", <<b>>>>
     ELSE IF ~(AllFin(fl.B.fin) /\ AllFin(fl.H.fin) /\ AllFin(fl.B0.fin) /\ AllFin(fl.H0.fin) /\ AllFin(fl.Bid.fin) /\ AllFin(fl.Hid.fin))
          THEN <<"C15", "field_nonfinite", <<b>>>>
     ELSE LET bB == BadRows(fl.B.q, fl.B0.q)  bH == BadRows(fl.H.q, fl.H0.q)
              sB == BadRows(fl.B0.q, fl.Bid.q)  sH == BadRows(fl.H0.q, fl.Hid.q)
          IN IF bB # {} \/ bH # {}
             THEN <<Prop(e), "field_variant_mismatch",
                    <<RegionName(Regions(b, st, obs, bB \cup bH)), IF bH # {} THEN (IF bB # {} THEN "BH" ELSE "H") ELSE "B">>>>
             \* (the comparison with kappa = id is another property's law and is made for the unstretched bodies only: the
             \*  observers of a body flattened 1:400 or more are closer than 1e-3 sizes to it, where the documentation
             \*  promises no accuracy - measured 2e-7 of gross at 1:10^4 under a generic rotation)
             ELSE IF ~e.unit /\ st = <<1, 1, 1>> /\ (sB # {} \/ sH # {})
             THEN <<"C12", "field_scale_mismatch",
                    <<RegionName(Regions(b, st, obs, sB \cup sH)), IF sH # {} THEN (IF sB # {} THEN "BH" ELSE "H") ELSE "B">>>>
             ELSE Ok

\* ---------------------------------------------------------------- one construction
\* two components that are both surfaces of lattice boxes: the interval predicate applies
BoxPairInfo(V, F) ==
  LET cs == Components(F) IN
  IF Cardinality(cs) # 2 THEN [is |-> FALSE, pen |-> FALSE]
  ELSE LET c1 == CHOOSE c \in cs : TRUE
           c2 == CHOOSE c \in cs : c # c1
       IN IF ~(IsBoxSurface(V, F, c1) /\ IsBoxSurface(V, F, c2)) THEN [is |-> FALSE, pen |-> FALSE]
          ELSE [is |-> TRUE, pen |-> BoxesInterpenetrate(BBoxLo(V, F, c1), BBoxHi(V, F, c1), BBoxLo(V, F, c2), BBoxHi(V, F, c2))]

\* the ground truth of a stretched mesh is evaluated on the vertices with the stretch divided out (exactly; see Mesh!Stretch)
MeshVerdict(e) ==
  LET W == VSeq(e.verts)
      V == Destretch(e.stretch, W)
      F == VSeq(e.faces_in)
      G == VSeq(e.faces_out)
      P == Prop(e)
  IN IF ~StretchExact(e.stretch, VSeq(e.verts_in)) THEN <<"machinery", "premise_stretch", <<e.kind>>>>
     ELSE IF ~WellFormed(Destretch(e.stretch, VSeq(e.verts_in)), F) THEN <<"machinery", "premise_wellformed", <<e.kind>>>>
     ELSE IF ~e.proj_ok \/ W # VSeq(e.verts_in) THEN <<"-", "vertices_changed", <<e.kind>>>>     \* the object must store the vertices it was given
     ELSE IF e.st_none THEN <<"-", "status_missing", <<e.kind>>>>                              \* a check that ran must leave a boolean
     ELSE LET isOpen == Open(F)
              isDisc == Disconnected(F)
              isSelf == SelfIntersecting(V, F)
          IN IF e.open # isOpen THEN <<P, "status_open", <<e.kind, e.open>>>>
             ELSE IF e.disc # isDisc THEN <<P, "status_disconnected", <<e.kind, e.disc>>>>
             ELSE IF e.selfint # isSelf THEN
                \* a false alarm and a missed transversal crossing are failures for any mesh; a self-intersection without any
                \* transversal crossing is demanded only where the interval predicate proves that two boxes interpenetrate
                LET cls == CrossClass(V, F)
                    bp == BoxPairInfo(V, F)
                IN IF cls \in {"none", "proper"} THEN <<P, "status_selfintersecting", <<e.kind, e.selfint, cls>>>>
                   ELSE IF bp.is /\ bp.pen THEN <<P, "status_selfintersecting", <<e.kind, e.selfint, "degenerate">>>>
                   ELSE Ok     \* contact (or a degenerate crossing of bodies that are not boxes): either answer is accepted
             ELSE IF ~SameFaceSets(F, G) THEN <<(IF ~isOpen /\ ~isSelf THEN P ELSE "-"), "faces_changed", <<e.kind>>>>
             ELSE IF ~isOpen /\ ~isSelf /\ Separated(V, F) /\ ~Outward(V, G) THEN <<P, "not_outward", <<e.kind, IF Outward(V, F) THEN "input_outward" ELSE "input_mixed">>>>
             ELSE IF e.field.has THEN
                (IF isOpen \/ isDisc \/ isSelf THEN <<"machinery", "premise_closed", <<e.kind>>>> ELSE FieldVerdict(e, V, F))
             ELSE Ok

\* ---------------------------------------------------------------- two meshes in one call
Flat(t) == t[1] \o t[2]                               \* (2 x n x 3) -> (2n x 3)
Call2Verdict(e) ==
  LET bB == BadRows(Flat(e.Bj.q), Flat(e.Bs.q))
      bH == BadRows(Flat(e.Hj.q), Flat(e.Hs.q))
      n == Len(e.obs)
      srcOf(S) == {IF i <= n THEN 1 ELSE 2 : i \in S}
  IN IF Len(e.Bj.q) # 2 \/ Len(e.Bs.q) # 2 \/ Len(e.Bj.q[1]) # n \/ Len(e.Bj.q[2]) # n THEN <<"-", "call2_shape", <<n>>>>
     ELSE IF bB # {} \/ bH # {}
     THEN <<"C06", "batch_mismatch", <<n, IF bH # {} THEN (IF bB # {} THEN "BH" ELSE "H") ELSE "B", Cardinality(srcOf(bB \cup bH))>>>>
     ELSE Ok

\* ---------------------------------------------------------------- what "warn" / "raise" reported
ModeVerdict(e) ==
  LET V == VSeq(e.verts)
      F == VSeq(e.faces_in)
      isOpen == Open(F)
      isDisc == Disconnected(F)
      cls == CrossClass(V, F)
      first == IF isOpen THEN "open" ELSE IF isDisc THEN "disc" ELSE IF cls = "proper" THEN "selfint" ELSE "none"
  IN IF ~WellFormed(V, F) THEN <<"machinery", "premise_wellformed", <<"mode">>>>
     ELSE IF cls = "degenerate" THEN Ok
     ELSE IF e.mode = "warn" /\ (e.warned.open # isOpen \/ e.warned.disc # isDisc \/ e.warned.selfint # (cls = "proper"))
          THEN <<"-", "mode_warn", <<e.kind>>>>
     ELSE IF e.mode = "raise" /\ e.raised # first THEN <<"-", "mode_raise", <<e.kind, e.raised, first>>>>
     ELSE Ok

\* ---------------------------------------------------------------- history of one object: use, then normalise, then use
\* e.steps[k] = what was observed after the k-th operation of the history on an object built with reorient_faces = skip:
\* faces (obj.faces), faces_mesh (the windings of the array obj.mesh the field is computed from), status_reoriented, the
\* value a check returned, and for a use the fields at the declared observers.  After reorient_faces() every observation
\* is judged as for an object normalised at construction.
LifeVerdict(e) ==
  LET V == Destretch(e.stretch, VSeq(e.verts_in))
      F == VSeq(e.faces_in)
      P == Prop(e)
      b == e.base
      obs == VSeq(e.obs)
      n == Len(e.steps)
      After(k) == \E j \in 1..k : e.steps[j].op = "reorient"
      Truth(op) == IF op = "check_open" THEN Open(F) ELSE IF op = "check_disconnected" THEN Disconnected(F) ELSE SelfIntersecting(V, F)
      StepVerdict(k) ==
        LET s == e.steps[k]  G == VSeq(s.faces)  M == VSeq(s.faces_mesh) IN
        IF ~SameFaceSets(F, G) THEN <<P, "faces_changed", <<"life", "faces">>>>
        ELSE IF ~After(k) /\ G # F THEN <<"-", "faces_changed_without_reorient", <<"life", s.op>>>>
        ELSE IF s.reoriented # After(k) THEN <<"-", "status_reoriented", <<"life", s.op>>>>
        ELSE IF After(k) /\ ~Outward(V, G) THEN <<P, "not_outward", <<"life", "faces">>>>
        ELSE IF After(k) /\ s.op = "use" /\ (~SameFaceSets(F, M) \/ ~Outward(V, M)) THEN <<P, "not_outward", <<"life", "mesh_array">>>>
        ELSE IF s.op \in LifeChecks /\ s.ret # Truth(s.op) THEN <<P, "status_after_use", <<"life", s.op>>>>
        ELSE IF s.op = "use" /\ After(k) /\ ~(AllFin(s.B.fin) /\ AllFin(s.H.fin)) THEN <<"C15", "field_nonfinite", <<b>>>>
        ELSE IF s.op = "use" /\ After(k) /\ (BadRows(s.B.q, e.B0.q) # {} \/ BadRows(s.H.q, e.H0.q) # {})
             THEN <<P, "field_variant_mismatch", <<"life", IF BadRows(s.H.q, e.H0.q) # {} THEN "BH" ELSE "B">>>>
        ELSE Ok
      bad == {k \in 1..n : StepVerdict(k)[1] # "ok"}
  IN IF ~StretchExact(e.stretch, VSeq(e.verts_in)) \/ ~WellFormed(V, F) THEN <<"machinery", "premise_wellformed", <<"life">>>>
     ELSE IF ~(b \in BaseNames) \/ Open(F) \/ Disconnected(F) \/ SelfIntersecting(V, F) \/ ~SameBody(V, F, BaseMesh(b).v, BaseMesh(b).f)
          THEN <<"machinery", "premise_samebody", <<"life">>>>
     ELSE IF ~({obs[i] : i \in 1..Len(obs)} = StretchSet(e.stretch, ObsIn(b) \cup ObsOut(b)) /\ e.den = ObsDen) THEN <<"machinery", "premise_observers", <<"life">>>>
     ELSE IF ~(\A k \in 1..n : e.steps[k].op \in LifeOps) \/ ~AllFin(e.B0.fin) \/ ~AllFin(e.H0.fin) THEN <<"machinery", "premise_history", <<"life">>>>
     ELSE IF bad = {} THEN Ok
     ELSE StepVerdict(CHOOSE k \in bad : \A j \in bad : k <= j)

Verdict(e) == IF e.type = "mesh" THEN MeshVerdict(e)
              ELSE IF e.type = "life" THEN LifeVerdict(e)
              ELSE IF e.type = "call2" THEN Call2Verdict(e)
              ELSE IF e.type = "mode" THEN ModeVerdict(e)
              ELSE <<"machinery", "unknown_event_type", <<>>>>

Judged == [i \in 1..Len(Trace) |-> Verdict(Trace[i])]
Bad == {i \in 1..Len(Trace) : Judged[i][1] # "ok"}
ASSUME PrintT(<<"validated", Len(Trace), "rejected", Cardinality(Bad)>>)
ASSUME \A i \in Bad : PrintT(<<"REJECT", Trace[i].tid, Judged[i][2], Judged[i][1], Judged[i][3]>>)
Init == x = 0
Next == x' = x
=============================================================================
