---------------------------- MODULE TV_Observers ----------------------------
(* Batch validator: real calls whose `observers` argument is written in the ways enumerated by MC_Observers.            *)
(* ndjson line: {"tid", "c": {field, sumup, squeeze, agg, sources}, "arg": abstract observers argument (Observers.tla),  *)
(*               "outcome": "ok"|"raise"|"exc:..", "shape": [..], "flat": row-major integers of the returned array}      *)
EXTENDS Observers, TLC, Json, IOUtils
VARIABLE x
Trace == ndJsonDeserialize(IOEnv.TRACE_FILE)
OK == <<"ok", "ok">>
Verdict(ev) ==
  LET c == ev.c  a == ev.arg  e == CallOfObs(c, a) IN
  IF ~ObsWellFormed(c, a) THEN (IF ev.outcome = "raise" THEN OK ELSE IF ev.outcome = "ok" THEN <<"-", "IllFormedAccepted">> ELSE <<"-", "ForeignException">>)
  ELSE IF ev.outcome # "ok" THEN <<"FW", "AdmittedObserversRejected">>
  ELSE IF ev.shape # ShapeOf(e) THEN (IF c.agg # "none" THEN <<"-", "ShapeAgg">> ELSE <<"FW", "Shape">>)
  ELSE IF ev.flat # Flat1(Expected(e)) THEN <<"FW", "Tensor">>
  ELSE OK
Bad == {i \in 1..Len(Trace) : Verdict(Trace[i])[1] # "ok"}
ASSUME PrintT(<<"validated", Len(Trace), "rejected", Cardinality(Bad)>>)
ASSUME \A i \in Bad : LET v == Verdict(Trace[i]) IN PrintT(<<"REJECT", Trace[i].tid, v[2], v[1], <<Trace[i].arg.kind, Trace[i].outcome, Trace[i].what>>>>)
Init == x = 0
Next == x' = x
=============================================================================
