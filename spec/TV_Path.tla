------------------------------ MODULE TV_Path ------------------------------
(* Batch validator for steps recorded from real objects (C09 single objects, C10 compound objects).     *)
(* ndjson line: {"pre": <state>, "steps": [{"tid","call","outcome","post","alts":[{"form","outcome","post"}]}]} *)
EXTENDS Path, TLC, Json, IOUtils
VARIABLE x
Trace == ndJsonDeserialize(IOEnv.TRACE_FILE)

Names(st) == DOMAIN st.path
AllOK(st) == \A o \in Names(st) : PathOK(st.path[o])
OK == <<"ok", "ok">>

\* the set of failing clauses of one step: the first failing clause PER PROPERTY (a step can break C09 and C10 at once,
\* e.g. a compound move that displaces the collection and its children by different amounts)
Verdicts(pre, s) ==
  LET post == s.post
      call == s.call
      same == post.path = pre.path
  IN IF call.bad # "" THEN
        (IF ~same THEN {<<"C09", "RejectedChanged">>}
         ELSE IF s.outcome = "raise" THEN {}
         ELSE IF s.outcome = "ok" THEN {<<"-", "BadAccepted">>} ELSE {<<"-", "ForeignException">>})
     ELSE IF s.outcome # "ok" THEN (IF same THEN {<<"-", "WellFormedRejected">>} ELSE {<<"C09", "RejectedChanged">>})
     ELSE IF ~AllOK(post) THEN {<<"C09", "EqualLength">>}
     ELSE LET exp == ApplyPath(pre, call)
              v09 == IF exp.path[call.o] # post.path[call.o] THEN {<<"C09", "OwnPath">>}
                     ELSE IF \E i \in DOMAIN s.alts : s.alts[i].outcome # "ok" \/ s.alts[i].post.path # exp.path THEN {<<"C09", "FormsDisagree">>}
                     ELSE {}
              v10 == IF ~FrameKept(pre, post, call.o) THEN {<<"C10", "Frame">>}
                     ELSE IF ~RelPoseKept(pre, post, call.o) THEN {<<"C10", "RelPose">>}
                     ELSE IF s.field.has /\ SubLen(pre, call.o) /\ ~IsPadSliceImage(s.field.post, s.field.pre) THEN {<<"C10", "InternalField">>}
                     ELSE {}
          IN IF v09 \cup v10 # {} THEN v09 \cup v10
             ELSE IF exp.path # post.path THEN {<<"-", "CompoundPost">>} ELSE {}

BadOf(i) == LET e == Trace[i]
               steps == e.steps
           IN UNION {{<<steps[k].tid, v, steps[k].call.op, steps[k].outcome>> : v \in Verdicts(e.pre, steps[k])} : k \in 1..Len(steps)}
RECURSIVE CountRange(_, _)
CountRange(lo, hi) == IF lo > hi THEN 0 ELSE IF lo = hi THEN Len(Trace[lo].steps)
                      ELSE LET mid == (lo + hi) \div 2 IN CountRange(lo, mid) + CountRange(mid + 1, hi)
AllBad == UNION {BadOf(i) : i \in 1..Len(Trace)}
ASSUME PrintT(<<"validated", CountRange(1, Len(Trace)), "rejected", Cardinality(AllBad)>>)
ASSUME \A b \in AllBad : PrintT(<<"REJECT", b[1], b[2][2], b[2][1], <<b[3], b[4]>>>>)
Init == x = 0
Next == x' = x
=============================================================================
