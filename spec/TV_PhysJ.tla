----------------------------- MODULE TV_PhysJ -----------------------------
(***************************************************************************)
(* C02 validator: B = mu0*H + J everywhere; J and M report the body's      *)
(* polarization.  Every logged observation of the real getB/getH/getJ/getM *)
(* is judged with the exact classification of Physics.tla.                 *)
(*                                                                         *)
(* Input (ndjson, IOEnv.TRACE_FILE), one line per scene:                   *)
(*  kind = "field": {sid, kind, body, pose:{R,p2}, ri, pol, inout, batch,  *)
(*      iface, kap:{id,dec}, obs:[{t, o, fin, Jq, B, H, J, M [, Jbox]}]}   *)
(*      o   doubled global lattice observer                                *)
(*      Jq  J / |unit polarization| after undoing kappa, q12, scale 1      *)
(*      B, H, J, M   B, mu0*H, J, mu0*M as q12 with ONE gross scale per    *)
(*                   observer (mu0 = magpylib.mu_0, multiplied by the      *)
(*                   harness: the terms of the law are measured, the       *)
(*                   comparison is made here)                              *)
(*      multi-source calls additionally: pair, twin:{body,pose} = the      *)
(*      other body of the call (for the joint classification)              *)
(*  kind = "attr": {sid, kind, body, pose, pol, via, attr, dec, seq,       *)
(*      outcome, exc, filter,                                              *)
(*      obs:[{t, o, fin, P, Mu, J, M}]}  P = polarization attribute,       *)
(*      Mu = mu0 * magnetization attribute, J = getJ, M = mu0*getM at o    *)
(*      (all q12 with one gross scale, in the local = global frame)        *)
(***************************************************************************)
EXTENDS Physics, TLC, Json, IOUtils
VARIABLE x

Trace == ndJsonDeserialize(IOEnv.TRACE_FILE)

RECURSIVE Digits(_)
Digits(n) == IF n < 10 THEN 0 ELSE 1 + Digits(n \div 10)
\* decimal exponent (in units of 1e-12 of the gross scale) of a q12 difference given by its limb differences
DevDec(dh, dl) == IF Abs(dh) > 2000 THEN 6 + Digits(Abs(dh)) ELSE Digits(Abs(dh * 1000000 + dl))
MaxOf3(a, b, c) == IF a >= b /\ a >= c THEN a ELSE IF b >= c THEN b ELSE c
DevBHJ(o) == MaxOf3(DevDec(o.B[1][1] - o.H[1][1] - o.J[1][1], o.B[1][2] - o.H[1][2] - o.J[1][2]),
                    DevDec(o.B[2][1] - o.H[2][1] - o.J[2][1], o.B[2][2] - o.H[2][2] - o.J[2][2]),
                    DevDec(o.B[3][1] - o.H[3][1] - o.J[3][1], o.B[3][2] - o.H[3][2] - o.J[3][2]))
DevVec(a, b) == MaxOf3(DevDec(a[1][1] - b[1][1], a[1][2] - b[1][2]), DevDec(a[2][1] - b[2][1], a[2][2] - b[2][2]),
                       DevDec(a[3][1] - b[3][1], a[3][2] - b[3][2]))

\* ---- field scenes: set of <<clause, property, deviation decade>> that fail for observation o
JClause(cls, c) == IF cls \notin Magnets THEN "J-nonmagnet"
                   ELSE IF c = "in" THEN "J-inside" ELSE IF c = "out" THEN "J-outside" ELSE "J-boundary"
FieldBad(s, b, o, c) ==
  IF ~InOutTruthful(b, s.pose, o.o, s.inout) THEN {<<"premise-inout", "MACHINERY", 0>>}
  ELSE IF ~o.fin THEN (IF Singular(b, Local(s.pose, o.o)) THEN {} ELSE {<<"nonfinite", "C15", 0>>})
  ELSE LET allowed == IF b.cls \notin Magnets THEN {Zero3}
                      ELSE IF s.inout = "inside" \/ (s.inout = "auto" /\ c = "in") THEN {JIn(s.pose, s.pol)}
                      ELSE IF s.inout = "outside" \/ (s.inout = "auto" /\ c = "out") THEN {Zero3}
                      ELSE {JIn(s.pose, s.pol), Zero3}
       IN (IF \E v \in allowed : VecClose12(o.Jq, QVec(v), TolJ) THEN {} ELSE {<<JClause(b.cls, c), "C02", 12>>})
          \cup (IF \A i \in 1..3 : Zero12(o.B[i], o.H[i], o.J[i], TolBHJ) THEN {} ELSE {<<"BHJ", "C02", DevBHJ(o)>>})
          \cup (IF VecClose12(o.J, o.M, TolBHJ) THEN {} ELSE {<<"JM", "C02", DevVec(o.J, o.M)>>})
          \* the same observer alone in a call and inside the whole-box call (element independence, property C06)
          \cup (IF s.batch # "single" \/ VecClose12(o.Jq, o.Jbox, TolJ) THEN {} ELSE {<<"batch-J", "C06", 12>>})
\* ---- attribute scenes
\* The law holds after EVERY assignment, whatever its outcome (s.outcome: "ok" | "warned" | "raised"; s.filter: "default" |
\* "error" = warnings escalated to errors | "ignore").  For the steps of an assignment sequence (s.seq) the values before
\* the assignment (P0, Mu0), the values after it (Pc, Muc) and the assigned value A (as a polarization) are logged on one
\* common scale: the pair (polarization,
\* mu0*magnetization) is either unchanged or new in BOTH members - never mixed.
AttrBad(s, b, o, c) ==
  IF ~o.fin THEN {<<"nonfinite", "C15", 0>>}
  ELSE (IF VecClose12(o.P, o.Mu, TolAttr) THEN {} ELSE {<<"attr-JM", "C02", DevVec(o.P, o.Mu)>>})
       \cup (IF c # "in" \/ VecClose12(o.J, o.P, TolAttr) THEN {} ELSE {<<"J-attr", "C02", DevVec(o.J, o.P)>>})
       \cup (IF c # "in" \/ VecClose12(o.M, o.Mu, TolAttr) THEN {} ELSE {<<"M-attr", "C02", DevVec(o.M, o.Mu)>>})
       \cup (IF ~s.seq THEN {}
             ELSE LET chP == ~VecClose12(o.Pc, o.P0, TolAttr)     \* (Pc, Muc = P, Mu on the common scale of before and after)
                      chM == ~VecClose12(o.Muc, o.Mu0, TolAttr)
                      stored == VecClose12(IF s.attr = "polarization" THEN o.Pc ELSE o.Muc, o.A, TolAttr)
                  IN (IF chP = chM THEN {} ELSE {<<"attr-mixed", "C02", 12>>})
                     \* a completed assignment stores the value (C17); one that raised either stored it or left the pair alone
                     \cup (IF s.outcome # "raised" /\ ~stored THEN {<<"attr-stored", "C17", 12>>} ELSE {})
                     \cup (IF s.outcome = "raised" /\ s.filter # "error" THEN {<<"attr-raise", "-", 12>>} ELSE {}))

SceneOK(s) == BodyOK(s.body) /\ PoseOK(s.pose)
\* one pass over the trace: per scene the sequence of [t, c, surf, bad] of its observations ("\o <<>>" makes TLC
\* evaluate the function once instead of at every application)
ObsRes(s, b, o) == LET xl == Local(s.pose, o.o)
                       c == Classify(b, xl)
                   IN [t |-> o.t, c |-> c, surf |-> SurfaceC(b, xl, c), xl |-> xl,
                       bad |-> IF s.kind = "field" THEN FieldBad(s, b, o, c) ELSE AttrBad(s, b, o, c)]
SceneRes(s) == IF ~SceneOK(s) THEN <<>>
               ELSE LET b == Prep(s.body) IN [k \in 1..Len(s.obs) |-> ObsRes(s, b, s.obs[k])] \o <<>>
\* rejected observations of scene i: <<tid, clause, property, context>>, and the cells it reached (for the coverage
\* figure only): class, pose, point class, stratum, in_out, kappa decade (100 = identity)
SceneOut(s) ==
  IF ~SceneOK(s) \/ ("twin" \in DOMAIN s /\ ~SceneOK(s.twin)) THEN [bad |-> {<<s.obs[1].t, "premise-body", "MACHINERY", <<s.body.cls>>>>}, cells |-> {}, joint |-> {}, assign |-> {}]
  ELSE LET r == SceneRes(s)
           b == Prep(s.body)
           kd == IF s.kind = "field" THEN (IF s.kap.id THEN 100 ELSE s.kap.dec) ELSE 0 IN
       [bad |-> UNION {{<<r[k].t, v[1], v[2],
                          IF s.kind = "field" THEN <<s.body.cls, r[k].c, Locus(b, r[k].xl, r[k].c), s.inout, s.batch, s.iface, kd, v[3]>>
                          ELSE <<s.body.cls, r[k].c, s.via, s.attr, s.dec, v[3], s.outcome, s.filter, s.seq>>>> : v \in r[k].bad}
                       : k \in {j \in 1..Len(r) : r[j].bad # {}}},
        cells |-> IF s.kind # "field" THEN {} ELSE {<<s.body.cls, s.ri, r[k].c, r[k].surf, s.inout, kd>> : k \in 1..Len(r)},
        \* jointly evaluated different bodies: exact class of every observer against BOTH bodies
        joint |-> IF s.kind # "field" \/ "twin" \notin DOMAIN s THEN {}
                  ELSE LET b2 == Prep(s.twin.body) IN
                       {<<s.pair, s.batch, r[k].c, Classify(b2, Local(s.twin.pose, s.obs[k].o))>> : k \in 1..Len(r)},
        \* outcomes of the assignments of the attribute law
        assign |-> IF s.kind = "field" THEN {} ELSE {<<s.body.cls, s.via, s.attr, s.outcome, s.filter>>}]

\* one LET so that the trace is read once and every scene is evaluated exactly once
ASSUME LET tr == Trace
           out == [i \in 1..Len(tr) |-> SceneOut(tr[i])] \o <<>>
           nobs == [i \in 1..Len(tr) |-> Len(tr[i].obs)]
           RECURSIVE Sum(_, _)
           Sum(lo, hi) == IF lo > hi THEN 0 ELSE IF lo = hi THEN nobs[lo] ELSE LET mid == (lo + hi) \div 2 IN Sum(lo, mid) + Sum(mid + 1, hi)
           bad == UNION {out[i].bad : i \in 1..Len(tr)}
       IN /\ PrintT(<<"validated", Sum(1, Len(tr)), "rejected", Cardinality(bad)>>)
          /\ \A r \in bad : PrintT(<<"REJECT", r[1], r[2], r[3], r[4]>>)
          /\ PrintT(<<"INFO", "cells", UNION {out[i].cells : i \in 1..Len(tr)}>>)
          /\ PrintT(<<"INFO", "joint", UNION {out[i].joint : i \in 1..Len(tr)}>>)
          /\ PrintT(<<"INFO", "assign", UNION {out[i].assign : i \in 1..Len(tr)}>>)
Init == x = 0
Next == x' = x
=============================================================================
