----------------------------- MODULE TV_Recorded -----------------------------
(* Trace validation of executions of the repository's OWN test-suite recorded by harness/verif_recorder.py.     *)
(* Values are arbitrary floats, logged as bit patterns (strings): the spec judges lengths, which entries may     *)
(* have changed, output shapes and the before/after digests - the shape-level view of Path.tla / FieldWrap.tla.  *)
(*  path : {"kind":"path","op","scalar","n","nanchor","known","start":{auto,v,bad},"outcome","pre":{pos,ori},"post":{pos,ori}} *)
(*  field: {"kind":"field","known","L","M","K","pix":[[..]],"sumup","squeeze","agg","output","outcome","shape","is_array","unchanged","equal_len"} *)
EXTENDS Path, TLC, Json, IOUtils
VARIABLE x
Trace == ndJsonDeserialize(IOEnv.TRACE_FILE)
OK == <<"ok", "ok">>

Dummy(n) == [i \in 1..n |-> 0]
\* effective input of a rotation with per-step anchors (multi_anchor_behavior): vector of the longer length
EffInput(ev) == IF ev.op = "rotate" /\ ev.nanchor > (IF ev.scalar THEN 0 ELSE ev.n)
                THEN [scalar |-> FALSE, v |-> Dummy(ev.nanchor)]
                ELSE [scalar |-> ev.scalar, v |-> Dummy(ev.n)]
PathVerdict(ev) ==
  LET pre == ev.pre  post == ev.post IN
  IF Len(post.pos) # Len(post.ori) \/ Len(post.pos) < 1 THEN <<"C09", "EqualLength">>
  ELSE IF ev.outcome # "ok" THEN (IF post = pre THEN OK ELSE <<"C09", "RejectedChanged">>)
  ELSE IF ~ev.known \/ ev.start.bad THEN OK           \* the recorder could not classify the input: nothing claimed
  ELSE IF ev.op \in {"move", "rotate"} THEN
       LET inp == EffInput(ev)
           st == [auto |-> ev.start.auto, v |-> ev.start.v]
           f == DeclFrame(inp, Len(pre.pos), st)
       IN IF Len(post.pos) # f.hi - f.lo THEN <<"C09", "Length">>
          ELSE IF \E i \in 1..Len(post.pos) : ~InWin(inp, f, i - 1 + f.lo) /\
                      (post.pos[i] # OldAt(pre.pos, i - 1 + f.lo) \/ post.ori[i] # OldAt(pre.ori, i - 1 + f.lo)) THEN <<"C09", "UntouchedEntryChanged">>
          ELSE IF ev.op = "move" /\ post.ori # [i \in 1..Len(post.pos) |-> OldAt(pre.ori, i - 1 + f.lo)] THEN <<"C09", "MoveChangedOrientation">>
          ELSE OK
  ELSE IF ev.op = "setpos" THEN
       (IF Len(post.pos) # ev.n THEN <<"C09", "Length">> ELSE IF post.ori # PadSlice(ev.n, pre.ori) THEN <<"C09", "SetterPadSlice">> ELSE OK)
  ELSE IF ev.op = "setori" THEN
       (IF Len(post.ori) # ev.n THEN <<"C09", "Length">> ELSE IF post.pos # PadSlice(ev.n, pre.pos) THEN <<"C09", "SetterPadSlice">> ELSE OK)
  ELSE OK

RECURSIVE DropOnes(_)
DropOnes(s) == IF Len(s) = 0 THEN <<>> ELSE IF Head(s) = 1 THEN DropOnes(Tail(s)) ELSE <<Head(s)>> \o DropOnes(Tail(s))
FieldVerdict(ev) ==
  IF ~ev.unchanged THEN <<"C08", "DeepUnchanged">>
  ELSE IF ~ev.equal_len THEN <<"C08", "PathLengthsDiffer">>
  ELSE IF ev.outcome # "ok" \/ ~ev.known \/ ~ev.is_array THEN OK
  ELSE LET pixaxes == IF ev.agg THEN <<1>> ELSE ev.pix[1]
           full == <<IF ev.sumup THEN 1 ELSE ev.L, ev.M, ev.K>> \o pixaxes \o <<3>>
           want == IF ev.squeeze THEN DropOnes(full) ELSE full
       IN IF ev.shape = want THEN OK ELSE (IF ev.agg THEN <<"-", "ShapeAgg">> ELSE <<"C06", "Shape">>)
Verdict(ev) == IF ev.kind = "path" THEN PathVerdict(ev) ELSE FieldVerdict(ev)
BadIdx == {i \in 1..Len(Trace) : Verdict(Trace[i])[1] # "ok"}
ASSUME PrintT(<<"validated", Len(Trace), "rejected", Cardinality(BadIdx)>>)
ASSUME \A i \in BadIdx : LET v == Verdict(Trace[i]) IN PrintT(<<"REJECT", Trace[i].tid, v[2], v[1], <<Trace[i].kind, Trace[i].outcome>>>>)
Init == x = 0
Next == x' = x
=============================================================================
