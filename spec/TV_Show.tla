------------------------------ MODULE TV_Show ------------------------------
(* Batch validator for property C19: what show() drew (per object: the traces produced for it; and the figure returned, *)
(* read in the unit announced on its axes) against the placement predicted by Show.tla; and the stuttering of show() on *)
(* objects, styles, defaults.  Input (ndjson, IOEnv.TRACE_FILE), one line per displayed subplot:                        *)
(*  {tid, desc, backend, rc, outcome, anim, unit_req, unit_ann, unit_pow, unit_ok, closed,                              *)
(*   objs: {name: {cls, geom: {dim, verts}, path: [{p, r}], sel: {kind, n, l}, bare, pathshown}},                       *)
(*   frames: [{ind, gen: {name: [trace]}, fig: [trace]}],   trace = {type, mode, segs: [[[x, y, z]]]}  (q3 integers)    *)
(*   judge_nm, pre, post: {pub: {name: {attr: digest}}, parent, children, lab, defaults, caller}}                       *)
EXTENDS Show, Json, IOUtils
VARIABLE x

Trace == ndJsonDeserialize(IOEnv.TRACE_FILE)

Names(e) == DOMAIN e.objs
TracesOf(fr, n) == {fr.gen[n][i] : i \in DOMAIN fr.gen[n]}
SelIn(e, fr, n) == IF e.anim THEN AnimSel(fr.ind) ELSE e.objs[n].sel

\* first failing clause for one object in one frame
ObjClause(e, fr, n) ==
    LET o == e.objs[n]
        L == Len(o.path)
        sel == SelIn(e, fr, n)
    IN IF ~PosesOK(o.path) \/ ~SelValid(sel, L) THEN "BadScenario"
       ELSE LET D == Disp(sel, L)
                sc == ShapeClause(o.cls, o.geom, o.path, D, TracesOf(fr, n), o.bare, Tol)
            IN IF sc # "ok" THEN sc ELSE PathClause(o.path, TracesOf(fr, n), o.pathshown, Tol)

\* the figure shows the model: every point produced for an object is in the figure (read in the announced unit), and,
\* when nothing else was displayed, the figure contains nothing else
AllPts(trs) == UNION {PointsOf(trs[i]) : i \in DOMAIN trs}
Shift == {<<a, b, c>> : a \in -1..1, b \in -1..1, c \in -1..1}
NearIn(p, S) == \E d \in Shift : VAdd(p, d) \in S
FigureClause(e, fr) ==
    LET fig == AllPts(fr.fig)
        gen == UNION {UNION {PointsOf(t) : t \in TracesOf(fr, n)} : n \in Names(e)}
    IN IF ~(\A p \in gen : NearIn(p, fig)) THEN "FigureShowsModel"
       ELSE IF e.closed /\ ~(\A p \in fig : NearIn(p, gen)) THEN "FigureShowsOnlyModel"
       ELSE "ok"

\* show() is a stuttering step
ChangedObjs(e) == {n \in DOMAIN e.pre.pub : n \notin DOMAIN e.post.pub \/ e.post.pub[n] # e.pre.pub[n] \/ e.post.parent[n] # e.pre.parent[n]
                                           \/ e.post.lab[n] # e.pre.lab[n]}
                  \cup {n \in DOMAIN e.pre.children : e.post.children[n] # e.pre.children[n]}
ChangedAttrs(e, n) == {a \in DOMAIN e.pre.pub[n] : e.post.pub[n][a] # e.pre.pub[n][a]}

Verdicts(e) ==
    IF e.outcome # "ok" THEN {<<e.tid, <<"C19", "ShowReturns">>, "show", e.backend>>}
    ELSE
      (IF ~e.unit_ok \/ ~UnitAnnouncedOK(e.unit_req, e.unit_ann, e.unit_pow) THEN {<<e.tid, <<"C19", "UnitAnnounced">>, e.unit_req, e.unit_ann>>} ELSE {})
      \cup UNION {{<<e.tid, <<(IF ObjClause(e, e.frames[k], n) = "BadScenario" THEN "-" ELSE "C19"), ObjClause(e, e.frames[k], n)>>, e.objs[n].cls, n>> :
                      n \in {n \in Names(e) : ObjClause(e, e.frames[k], n) # "ok"}} : k \in DOMAIN e.frames}
      \cup UNION {IF FigureClause(e, e.frames[k]) # "ok" THEN {<<e.tid, <<"C19", FigureClause(e, e.frames[k])>>, "figure", e.backend>>} ELSE {} : k \in DOMAIN e.frames}
      \cup (IF e.judge_nm /\ ChangedObjs(e) # {}
            THEN {<<e.tid, <<"C19", "ObjectsUnchanged">>, e.pre.cls[n], ChangedAttrs(e, n)>> : n \in ChangedObjs(e)} ELSE {})
      \cup (IF e.judge_nm /\ e.pre.defaults # e.post.defaults THEN {<<e.tid, <<"C19", "DefaultsUnchanged">>, "defaults", e.backend>>} ELSE {})
      \cup (IF e.judge_nm /\ e.pre.caller # e.post.caller THEN {<<e.tid, <<"-", "CallerInputsUnchanged">>, "caller", e.backend>>} ELSE {})

\* number of (object, frame) placements judged in an event
Judged(e) == IF e.outcome # "ok" THEN 1 ELSE 1 + Len(e.frames) * Cardinality(Names(e))
RECURSIVE CountRange(_, _)
CountRange(lo, hi) == IF lo > hi THEN 0 ELSE IF lo = hi THEN Judged(Trace[lo])
                      ELSE LET mid == (lo + hi) \div 2 IN CountRange(lo, mid) + CountRange(mid + 1, hi)
AllBad == UNION {Verdicts(Trace[i]) : i \in 1..Len(Trace)}
ASSUME PrintT(<<"validated", CountRange(1, Len(Trace)), "rejected", Cardinality(AllBad)>>)
ASSUME \A b \in AllBad : PrintT(<<"REJECT", b[1], b[2][2], b[2][1], <<b[3], b[4]>>>>)
Init == x = 0
Next == x' = x
=============================================================================
