------------------------------ MODULE TV_Style ------------------------------
(* Batch trace validator: every step recorded from real magpylib styles is judged by the operators of Style. *)
(* Input (ndjson, IOEnv.TRACE_FILE): one line per case (one real leaf, one history from a fresh state)       *)
(*   {"case", "cls", "leaf", "mleaf" (real names of l and m), "checkfresh": bool,                            *)
(*    "clsof": {obj: class}, "has": {obj: {leaf: bool}}, "fhas": {family: {leaf: bool}},                     *)
(*    "def0": {family: {leaf: val}},  "init": <state>,                                                       *)
(*    "kids": {obj: [obj]} (children of the collections among the objects),                                  *)
(*    "steps": [{"tid", "op", "tgt", "src", "l", "v", "kw": {leaf: val}, "badname": bool, "notation",        *)
(*               "asg": {leaf: val}, "rec": bool (SetKids), "tgts": [obj] (SetObjs), "argchanged": bool,     *)
(*               "outcome": "ok" | "raise", "post": <state>, "res": {obj: {leaf: val}}, "reserr"}]}          *)
(*   <state> = {"objVal": {obj: {leaf: val}}, "def": {family: {leaf: val}}}                                  *)
(* Abstract leaves: "l" (the real leaf under test), "m" (a sibling leaf), "rest" (digest of all other real   *)
(* leaves of that object / family), "bad" (a name the style class does not have).  The pre-state of step k   *)
(* is the post-state observed after step k-1.  "res" is the style that show() resolves (read from the style  *)
(* object returned by get_style) for the listed objects, with the keywords kw.                               *)
EXTENDS Style, TLC, Json, IOUtils
VARIABLE x

Trace == ndJsonDeserialize(IOEnv.TRACE_FILE)

Seqify(s) == [i \in 1..Len(s) |-> s[i]]
CxOf(e) == [chain |-> [o \in DOMAIN e.clsof |-> ClassChain[e.clsof[o]]], has |-> e.has, fhas |-> e.fhas, def0 |-> e.def0,
            kids |-> [o \in DOMAIN e.kids |-> Seqify(e.kids[o])]]
CallOf(s) == [op |-> s.op, tgt |-> s.tgt, src |-> s.src, l |-> s.l, v |-> s.v, kw |-> s.kw, badname |-> s.badname,
              asg |-> s.asg, rec |-> s.rec, tgts |-> {s.tgts[i] : i \in DOMAIN s.tgts}]
ResLeaves == {"l", "m"}

\* copy() documents that it gives the copy a new label (suffix): the label is the one leaf a copy does not carry
Carries(e) == e.leaf # "label" /\ e.mleaf # "label"

\* which families differ from the library defaults (context of a failed reset)
NotRestored(post, cx) == {f \in DOMAIN post.def : post.def[f] # cx.def0[f]}

\* <<property, clause>> of the first failing clause, or <<"ok", "ok">>
\* Init of the requirement view: an object nobody has styled yet has no values of its own (witness w of the first case)
FreshUnset(init, cx) == cx.has["w"]["l"] => init.objVal["w"]["l"] = Unset

Verdict(pre, cx, carries, chkfresh, s) ==
  LET post == s.post
      call == CallOf(s)
      r == Apply(pre, cx, call)
  IN IF s.outcome \notin {"ok", "raise"} THEN <<"-", "Outcome">>
     ELSE IF r.ok /\ s.outcome = "raise" THEN <<"C20", "ValidRejected">>        \* a notation that does not work: not equivalent
     \* an invalid name/value for a leaf that no member of the collection has: nothing could change, the call passes unnoticed (stricter than C20)
     ELSE IF ~r.ok /\ s.outcome = "ok" /\ call.op = "SetKids" /\ post = pre
             /\ (\A o \in Members(cx, call.tgt, call.rec) : \A l \in DOMAIN call.asg : ~cx.has[o][l]) THEN <<"-", "InvalidUnnoticed">>
     ELSE IF ~r.ok /\ s.outcome = "ok" THEN <<"C20", "InvalidAccepted">>
     ELSE IF ~r.ok /\ post # pre THEN <<"C20", "RejectedButChanged">>
     ELSE IF call.op = "SetObj" /\ r.ok /\ post.objVal[call.tgt][call.l] # call.v THEN <<"C20", "LastWins">>
     ELSE IF call.op = "SetObj" /\ r.ok /\ ~OtherLeavesKept(pre, post, call.tgt, call.l) THEN <<"C20", "LeakLeaf">>
     ELSE IF call.op = "SetObj" /\ r.ok /\ ~OtherObjsKept(pre, post, call.tgt) THEN <<"C20", "LeakObject">>
     ELSE IF call.op = "SetDef" /\ r.ok /\ post.def[call.tgt][call.l] # call.v THEN <<"C20", "DefLastWins">>
     ELSE IF call.op = "SetDef" /\ r.ok /\ ~OtherDefLeavesKept(pre, post, call.tgt, call.l) THEN <<"C20", "LeakDefLeaf">>
     ELSE IF call.op = "SetDef" /\ r.ok /\ ~OtherFamsKept(pre, post, call.tgt) THEN <<"C20", "LeakFamily">>
     ELSE IF call.op = "SetObjs" /\ r.ok /\ (\E o \in call.tgts : post.objVal[o][call.l] # call.v) THEN <<"C20", "LastWins">>
     ELSE IF call.op = "SetObjs" /\ r.ok /\ (\E o \in call.tgts : ~OtherLeavesKept(pre, post, o, call.l)) THEN <<"C20", "LeakLeaf">>
     ELSE IF call.op = "SetObjs" /\ r.ok /\ (\E o \in Objs(pre) \ call.tgts : post.objVal[o] # pre.objVal[o]) THEN <<"C20", "LeakObject">>
     ELSE IF call.op = "SetKids" /\ r.ok /\ ~KidsGot(post, cx, Members(cx, call.tgt, call.rec), call.asg) THEN <<"C20", "KidsLastWins">>
     ELSE IF call.op = "SetKids" /\ r.ok /\ ~KidsOtherLeavesKept(pre, post, cx, Members(cx, call.tgt, call.rec), call.asg) THEN <<"C20", "LeakLeaf">>
     ELSE IF call.op = "SetKids" /\ r.ok /\ ~NonMembersKept(pre, post, Members(cx, call.tgt, call.rec)) THEN <<"C20", "LeakObject">>
     ELSE IF call.op \in {"SetKids", "SetObjs", "SetObj"} /\ s.argchanged THEN <<"C20", "CallerDictChanged">>   \* the style dictionary handed in is the caller's
     ELSE IF call.op = "Reset" /\ post.def # cx.def0 THEN <<"C20", "ResetRestores">>
     ELSE IF call.op = "Copy" /\ ~OtherObjsKept(pre, post, call.tgt) THEN <<"C20", "LeakObject">>
     ELSE IF call.op \in {"SetObj", "SetObjs", "Copy", "Show", "SetKids"} /\ post.def # pre.def THEN <<"C20", "LeakDefaults">>
     ELSE IF call.op \in {"SetDef", "Reset", "Show"} /\ post.objVal # pre.objVal THEN <<"C20", "LeakIntoObject">>
     ELSE IF \E o \in DOMAIN s.res : \E l \in ResLeaves : s.res[o][l] # Resolve(post, cx, o, l, IF r.ok THEN s.kw ELSE [k \in DOMAIN s.kw |-> Unset])
          THEN <<"C20", "Precedence">>
     \* beyond C20: the full post-state of the requirement view (copy carries the values: that is C18's claim)
     ELSE IF s.reserr # "" THEN <<"-", "ResolveRaised">>       \* the display code raised while resolving styles in a valid state
     ELSE IF call.op = "Copy" /\ carries /\ (\E l \in ResLeaves : post.objVal[call.tgt][l] # pre.objVal[call.src][l]) THEN <<"-", "CopyCarries">>
     ELSE IF call.op # "Copy" /\ r.st # post THEN <<"-", "Post">>
     \* beyond C20 as worded: a never-styled object already holds a value for this leaf, so its defaults can never take effect
     ELSE IF chkfresh /\ ~FreshUnset(pre, cx) THEN <<"-", "FreshUnset">>
     ELSE <<"ok", "ok">>

PreOf(e, k) == IF k = 1 THEN e.init ELSE e.steps[k - 1].post
BadOf(i) == LET e == Trace[i]
                cx == CxOf(e)
                steps == e.steps
            IN {<<steps[k].tid, Verdict(PreOf(e, k), cx, Carries(e), k = 1 /\ e.checkfresh, steps[k]), steps[k].op, steps[k].notation, steps[k].outcome,
                  e.cls, e.leaf, steps[k].tgt,
                  IF steps[k].op = "Reset" THEN NotRestored(steps[k].post, cx) ELSE {}>> :
                   k \in {k \in 1..Len(steps) : Verdict(PreOf(e, k), cx, Carries(e), k = 1 /\ e.checkfresh, steps[k])[1] # "ok"}}
RECURSIVE CountRange(_, _)     \* divide and conquer: recursion depth log(n)
CountRange(lo, hi) == IF lo > hi THEN 0 ELSE IF lo = hi THEN Len(Trace[lo].steps)
                      ELSE LET mid == (lo + hi) \div 2 IN CountRange(lo, mid) + CountRange(mid + 1, hi)
AllBad == UNION {BadOf(i) : i \in 1..Len(Trace)}
ASSUME PrintT(<<"validated", CountRange(1, Len(Trace)), "rejected", Cardinality(AllBad)>>)
ASSUME \A b \in AllBad : PrintT(<<"REJECT", b[1], b[2][2], b[2][1], <<b[3], b[4], b[5], b[6], b[7], b[8], b[9]>>>>)
Init == x = 0
Next == x' = x
=============================================================================
