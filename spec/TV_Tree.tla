------------------------------ MODULE TV_Tree ------------------------------
(* Batch trace validator: every logged step of the real objects is judged by the operators of Tree. *)
(* Input (ndjson, IOEnv.TRACE_FILE): one line per pre-state                                         *)
(*   {"pre": <state>, "steps": [{"tid", "call", "outcome", "post": <state>, "views": {cid: {S,X,C,A}}}]} *)
EXTENDS Tree, TLC, Json, IOUtils
VARIABLE x

Trace == ndJsonDeserialize(IOEnv.TRACE_FILE)

Seqify(s) == [i \in 1..Len(s) |-> s[i]]
SeqMap(f) == [c \in DOMAIN f |-> Seqify(f[c])]
StOf(j) == [kind |-> j.kind, parent |-> j.parent, children |-> SeqMap(j.children),
            srcs |-> SeqMap(j.srcs), sens |-> SeqMap(j.sens), colls |-> SeqMap(j.colls)]
CallOf(j) == [op |-> j.op, self |-> j.self, args |-> Seqify(j.args), ov |-> j.ov, rec |-> j.rec, errors |-> j.errors]

\* the public *_all views must be the DFS flattenings of the logged post-state
ViewsOK(st, views) == \A c \in CollsOf(st) :
    LET ab == AllBelow(st, c) IN
    /\ Seqify(views[c].A) = ab
    /\ Seqify(views[c].S) = Typed(st, ab, "S")
    /\ Seqify(views[c].X) = Typed(st, ab, "X")
    /\ Seqify(views[c].C) = Typed(st, ab, "C")

\* <<property, clause>> of the first failing clause, or <<"ok","ok">>
Verdict(pre, s) ==
  LET post == StOf(s.post)
      call == CallOf(s.call)
  IN IF ~ForestInv(post) THEN <<"C11", ForestClause(post)>>
     ELSE IF ~ViewsOK(post, s.views) THEN <<"C11", "AllViews">>
     ELSE LET r == Apply(pre, call) IN
          IF s.outcome \notin {"ok", "raise"} THEN <<"-", "ForeignException">>
          ELSE IF r.ok # (s.outcome = "ok") THEN <<"-", "Outcome">>
          ELSE IF r.st # post THEN <<"-", "Post">>
          ELSE <<"ok", "ok">>

BadOf(i) == LET e == Trace[i]
               pre == StOf(e.pre)
               steps == e.steps
           IN {<<steps[k].tid, Verdict(pre, steps[k]), steps[k].call.op, steps[k].outcome>> :
                  k \in {k \in 1..Len(steps) : Verdict(pre, steps[k])[1] # "ok"}}
RECURSIVE CountRange(_, _)     \* divide and conquer: recursion depth log(n)
CountRange(lo, hi) == IF lo > hi THEN 0 ELSE IF lo = hi THEN Len(Trace[lo].steps)
                      ELSE LET mid == (lo + hi) \div 2 IN CountRange(lo, mid) + CountRange(mid + 1, hi)
CountSteps(n) == CountRange(1, n)
AllBad == UNION {BadOf(i) : i \in 1..Len(Trace)}
ASSUME PrintT(<<"validated", CountSteps(Len(Trace)), "rejected", Cardinality(AllBad)>>)
ASSUME \A b \in AllBad : PrintT(<<"REJECT", b[1], b[2][2], b[2][1], <<b[3], b[4]>>>>)
Init == x = 0
Next == x' = x
=============================================================================
