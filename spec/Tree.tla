------------------------------- MODULE Tree -------------------------------
(***************************************************************************)
(* The collection forest of magpylib (class_Collection.py, BaseGeo.parent, *)
(* utility.rec_obj_remover / format_obj_input).                            *)
(*                                                                         *)
(* Every operation is written ONCE in functional form                      *)
(*      OpF(st, args) == [ok |-> BOOLEAN, st |-> state]                    *)
(* over a state record                                                     *)
(*      st = [kind, parent, children, srcs, sens, colls]                   *)
(* so that the same text is (a) the next-state relation that TLC explores  *)
(* (MC_Tree.tla) and (b) the oracle that judges steps recorded from the    *)
(* real objects (TV_Tree.tla).  Object identities are strings, "None" is   *)
(* the absent parent, "ghost" stands for a parent object that is not part  *)
(* of the logged universe (e.g. a Collection created by a failed `a + b`). *)
(***************************************************************************)
EXTENDS Integers, Sequences, FiniteSets

None == "None"

Range(s) == {s[i] : i \in DOMAIN s}
Count(s, x) == Cardinality({i \in DOMAIN s : s[i] = x})

FilterSeq(s, P(_)) == LET RECURSIVE F(_)
                          F(t) == IF t = <<>> THEN <<>>
                                  ELSE IF P(Head(t)) THEN <<Head(t)>> \o F(Tail(t)) ELSE F(Tail(t))
                      IN F(s)

RECURSIVE RemoveFirst(_, _)
RemoveFirst(s, x) == IF s = <<>> THEN <<>>
                     ELSE IF Head(s) = x THEN Tail(s)
                     ELSE <<Head(s)>> \o RemoveFirst(Tail(s), x)

RECURSIVE Dedupe(_)          \* keep first occurrences (dict.fromkeys)
Dedupe(s) == IF s = <<>> THEN <<>>
             ELSE <<Head(s)>> \o Dedupe(FilterSeq(Tail(s), LAMBDA x : x # Head(s)))

Objs(st)  == DOMAIN st.kind
CollsOf(st) == {o \in Objs(st) : st.kind[o] = "C"}
IsColl(st, o) == o \in Objs(st) /\ st.kind[o] = "C"

(***************************************************************************)
(* Derived views: typed partitions and depth-first flattenings.            *)
(***************************************************************************)
Typed(st, s, k) == FilterSeq(s, LAMBDA x : x \in Objs(st) /\ st.kind[x] = k)

\* bounded depth-first flattening (fuel = number of objects; a cyclic structure simply stops)
RECURSIVE FlatN(_, _, _)
RECURSIVE FlatSeqN(_, _, _)
FlatN(st, o, n) == IF n = 0 \/ ~IsColl(st, o) THEN <<o>>
                   ELSE <<o>> \o FlatSeqN(st, st.children[o], n - 1)
FlatSeqN(st, s, n) == IF s = <<>> THEN <<>> ELSE FlatN(st, Head(s), n) \o FlatSeqN(st, Tail(s), n)
\* all objects below c in DFS preorder (c itself excluded)
AllBelow(st, c) == FlatSeqN(st, st.children[c], Cardinality(Objs(st)))
AllOfKind(st, c, k) == Typed(st, AllBelow(st, c), k)

Desc(st, c) == Range(AllBelow(st, c))

(***************************************************************************)
(* C11: the forest invariant.                                              *)
(***************************************************************************)
UniqueParent(st) ==           \* a parent lists its child exactly once, and only known parents
    \A o \in Objs(st) : st.parent[o] # None =>
        /\ st.parent[o] \in CollsOf(st)
        /\ Count(st.children[st.parent[o]], o) = 1
ChildrenPointBack(st) ==      \* every listed child names that collection as its parent
    \A c \in CollsOf(st) : \A i \in DOMAIN st.children[c] :
        /\ st.children[c][i] \in Objs(st)
        /\ st.parent[st.children[c][i]] = c
\* acyclic: following parent pointers never returns (bounded walk)
RECURSIVE Ancestors(_, _, _)
Ancestors(st, o, n) == IF n = 0 \/ o \notin Objs(st) \/ st.parent[o] = None \/ st.parent[o] \notin Objs(st) THEN {}
                       ELSE {st.parent[o]} \cup Ancestors(st, st.parent[o], n - 1)
Anc(st, o) == Ancestors(st, o, Cardinality(Objs(st)) + 1)
Acyclic(st) == \A c \in CollsOf(st) : c \notin Anc(st, c) /\ c \notin Range(st.children[c])
CachesOK(st) ==               \* cached typed lists = ordered typed partitions of children
    \A c \in CollsOf(st) :
        /\ st.srcs[c]  = Typed(st, st.children[c], "S")
        /\ st.sens[c]  = Typed(st, st.children[c], "X")
        /\ st.colls[c] = Typed(st, st.children[c], "C")
ForestInv(st) == UniqueParent(st) /\ ChildrenPointBack(st) /\ Acyclic(st) /\ CachesOK(st)

\* name of the first failing clause, for diagnostics
ForestClause(st) == IF ~UniqueParent(st) THEN "UniqueParent"
                    ELSE IF ~ChildrenPointBack(st) THEN "ChildrenPointBack"
                    ELSE IF ~Acyclic(st) THEN "Acyclic"
                    ELSE IF ~CachesOK(st) THEN "CachesOK" ELSE "ok"

(***************************************************************************)
(* Elementary edits (caches recomputed as _update_src_and_sens does).      *)
(***************************************************************************)
Recache(st, c) == [st EXCEPT !.srcs[c]  = Typed(st, st.children[c], "S"),
                             !.sens[c]  = Typed(st, st.children[c], "X"),
                             !.colls[c] = Typed(st, st.children[c], "C")]
Attach(st, c, o) == Recache([st EXCEPT !.parent[o] = c, !.children[c] = Append(@, o)], c)
Detach(st, o) == LET p == st.parent[o] IN
    IF p = None \/ p \notin CollsOf(st) THEN [st EXCEPT !.parent[o] = None]
    ELSE Recache([st EXCEPT !.parent[o] = None, !.children[p] = RemoveFirst(@, o)], p)

(***************************************************************************)
(* add(args.., override_parent)                                             *)
(*   - a non-object argument is rejected by the type check before anything *)
(*     else happens                                                        *)
(*   - duplicates are added once, every argument is checked (cycle, owned) *)
(*     before the first re-parenting                                       *)
(***************************************************************************)
BadArg == "<non-object>"
AddRejects(st, c, o, ov) ==
    \/ (IsColl(st, o) /\ (o = c \/ c \in Desc(st, o)))
    \/ (st.parent[o] # None /\ ~ov)
RECURSIVE AttachAll(_, _, _)
AttachAll(st, c, s) == IF s = <<>> THEN st ELSE AttachAll(Attach(Detach(st, Head(s)), c, Head(s)), c, Tail(s))
AddF(st, c, args, ov) ==
    IF BadArg \in Range(args) THEN [ok |-> FALSE, st |-> st]
    ELSE LET d == Dedupe(args) IN
         IF \E i \in DOMAIN d : AddRejects(st, c, d[i], ov) THEN [ok |-> FALSE, st |-> st]
         ELSE [ok |-> TRUE, st |-> AttachAll(st, c, d)]

(***************************************************************************)
(* remove(args.., recursive, errors): per argument; an argument that is not *)
(* found raises (after earlier arguments were removed) unless errors =     *)
(* "ignore"; any other value of `errors` is only noticed at that moment.   *)
(***************************************************************************)
Members(st, c, rec) == IF rec THEN Desc(st, c) ELSE Range(st.children[c])
RECURSIVE RemoveSeq(_, _, _, _, _)
RemoveSeq(st, c, args, rec, errors) ==
    IF args = <<>> THEN [ok |-> TRUE, st |-> st]
    ELSE LET o == Head(args) IN
         IF o \in Members(st, c, rec) THEN RemoveSeq(Detach(st, o), c, Tail(args), rec, errors)
         ELSE IF errors = "ignore" THEN RemoveSeq(st, c, Tail(args), rec, errors)
         ELSE [ok |-> FALSE, st |-> st]
RemoveF(st, c, args, rec, errors) ==
    IF BadArg \in Range(args) THEN [ok |-> FALSE, st |-> st] ELSE RemoveSeq(st, c, args, rec, errors)

(***************************************************************************)
(* obj.parent = p                                                          *)
(***************************************************************************)
SetParentF(st, o, p) ==
    IF p = None THEN [ok |-> TRUE, st |-> Detach(st, o)]
    ELSE IF ~IsColl(st, p) THEN [ok |-> FALSE, st |-> st]
    ELSE AddF(st, p, <<o>>, TRUE)

(***************************************************************************)
(* coll.children = args ; coll.sources/sensors/collections = args          *)
(* The setters first release the old (typed) children and then add the new *)
(* ones with override_parent; when the second half raises the first half   *)
(* stays (allowed by the property as long as the forest is consistent).    *)
(***************************************************************************)
RECURSIVE DetachAll(_, _)
DetachAll(st, s) == IF s = <<>> THEN st ELSE DetachAll(Detach(st, Head(s)), Tail(s))
SetChildrenF(st, c, args) ==
    LET st1 == DetachAll(st, st.children[c])
        r == AddF(st1, c, args, TRUE)
    IN [ok |-> r.ok, st |-> r.st]
\* format_obj_input(args, allow=<kind>): collections are flattened unless collections are wanted;
\* objects of another kind are silently dropped; a non-object cannot be iterated and is rejected
\* (when collections are wanted it is dropped silently instead).
RECURSIVE FlattenFor(_, _, _, _)
FlattenFor(st, s, k, n) ==
    IF s = <<>> THEN <<>>
    ELSE LET o == Head(s)
             h == IF k # "C" /\ IsColl(st, o) /\ n > 0 THEN FlattenFor(st, st.children[o], k, n - 1) ELSE <<o>>
         IN h \o FlattenFor(st, Tail(s), k, n)
SetTypedF(st, c, k, args) ==
    LET old == Typed(st, st.children[c], k)
        st1 == DetachAll(st, old)
        flat == FlattenFor(st1, args, k, Cardinality(Objs(st)))
    IN IF BadArg \in Range(flat) /\ k # "C" THEN [ok |-> FALSE, st |-> st1]
       ELSE LET sel == Typed(st1, flat, k)
                r == AddF(st1, c, sel, TRUE)
            IN [ok |-> r.ok, st |-> r.st]

(***************************************************************************)
(* a + b  ==  Collection(a, b): `c` is a collection that does not exist    *)
(* before the call (no parent, no children, referenced by nobody).         *)
(***************************************************************************)
Fresh(st, c) == IsColl(st, c) /\ st.parent[c] = None /\ st.children[c] = <<>>
                /\ \A d \in CollsOf(st) : c \notin Range(st.children[d])
PlusF(st, a, b, c) == AddF(st, c, <<a, b>>, FALSE)

(***************************************************************************)
(* Dispatch on a call record (used by the model checker wrapper and by the *)
(* trace validator): call = [op, self, args, ov, rec, errors, kindarg]     *)
(***************************************************************************)
Apply(st, call) ==
    CASE call.op = "add"      -> AddF(st, call.self, call.args, call.ov)
      [] call.op = "remove"   -> RemoveF(st, call.self, call.args, call.rec, call.errors)
      [] call.op = "parent"   -> SetParentF(st, call.self, call.args[1])
      [] call.op = "children" -> SetChildrenF(st, call.self, call.args)
      [] call.op = "sources"  -> SetTypedF(st, call.self, "S", call.args)
      [] call.op = "sensors"  -> SetTypedF(st, call.self, "X", call.args)
      [] call.op = "collections" -> SetTypedF(st, call.self, "C", call.args)
      [] call.op = "plus"     -> PlusF(st, call.args[1], call.args[2], call.self)

=============================================================================
