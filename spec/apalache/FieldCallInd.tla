--------------------------- MODULE FieldCallInd ---------------------------
(* The life cycle of one field computation (same actions as MC_FieldCall with Restore = TRUE), typed for Apalache. *)
(* Apalache proves the inductive invariant IndInv for ARBITRARY path lengths (unbounded integers) of three        *)
(* objects:  Init => IndInv  and  IndInv /\ Next => IndInv'.  IndInv implies NoMutation (C08 on the model).       *)
EXTENDS Integers

Objs == {"o1", "o2", "o3"}
InTiled == {"tiled", "group", "computed", "reduced", "rotated", "aggregated"}
PCs == {"idle", "entered", "checked", "untiled", "returned", "raised"} \union InTiled

VARIABLES
    \* @type: Str -> Int;
    len,
    \* @type: Str -> Int;
    saved,
    \* @type: Str;
    pc,
    \* @type: Int;
    grp,
    \* @type: Int;
    groups

\* @type: (Str -> Int) => Int;
MaxLen(f) == CHOOSE m \in {f[o] : o \in Objs} : \A o \in Objs : f[o] <= m
\* @type: (Str -> Int) => (Str -> Int);
Tiled(f) == [o \in Objs |-> MaxLen(f)]

Init == /\ len \in [Objs -> Nat] /\ \A o \in Objs : len[o] >= 1
        /\ saved = len /\ pc = "idle" /\ grp = 0 /\ groups \in Nat /\ groups >= 1

Call == pc = "idle" /\ pc' = "entered" /\ saved' = len /\ UNCHANGED <<len, grp, groups>>
Checked == pc = "entered" /\ pc' = "checked" /\ UNCHANGED <<len, saved, grp, groups>>
FailEarly == pc \in {"entered", "checked"} /\ pc' = "raised" /\ UNCHANGED <<len, saved, grp, groups>>
Tile == pc = "checked" /\ pc' = "tiled" /\ len' = Tiled(len) /\ grp' = 0 /\ UNCHANGED <<saved, groups>>
Group == pc \in {"tiled", "group"} /\ grp < groups /\ pc' = "group" /\ grp' = grp + 1 /\ UNCHANGED <<len, saved, groups>>
Computed == pc \in {"tiled", "group"} /\ grp = groups /\ pc' = "computed" /\ UNCHANGED <<len, saved, grp, groups>>
Reduced == pc = "computed" /\ pc' = "reduced" /\ UNCHANGED <<len, saved, grp, groups>>
Rotated == pc = "reduced" /\ pc' = "rotated" /\ UNCHANGED <<len, saved, grp, groups>>
Aggregated == pc = "rotated" /\ pc' = "aggregated" /\ UNCHANGED <<len, saved, grp, groups>>
\* a failure anywhere in the tiled section: the paths are reset on the way out (try/finally)
FailTiled == pc \in InTiled /\ pc' = "raised" /\ len' = saved /\ UNCHANGED <<saved, grp, groups>>
Untile == pc = "aggregated" /\ pc' = "untiled" /\ len' = saved /\ UNCHANGED <<saved, grp, groups>>
FailOutput == pc = "untiled" /\ pc' = "raised" /\ UNCHANGED <<len, saved, grp, groups>>
Return == pc = "untiled" /\ pc' = "returned" /\ UNCHANGED <<len, saved, grp, groups>>
Next == Call \/ Checked \/ FailEarly \/ Tile \/ Group \/ Computed \/ Reduced \/ Rotated \/ Aggregated
        \/ FailTiled \/ Untile \/ FailOutput \/ Return

\* negative control: the code before repair d6341f3 left the tiled lengths in place when it raised
FailTiledAsBuilt == pc \in InTiled /\ pc' = "raised" /\ UNCHANGED <<len, saved, grp, groups>>
NextAsBuilt == Next \/ FailTiledAsBuilt

TypeOK == /\ len \in [Objs -> Int] /\ saved \in [Objs -> Int] /\ pc \in PCs /\ grp \in Int /\ groups \in Int
IndInv == /\ TypeOK
          /\ \A o \in Objs : saved[o] >= 1
          /\ groups >= 1 /\ grp >= 0 /\ grp <= groups
          /\ (pc \notin InTiled => len = saved)
          /\ (pc \in InTiled => len = Tiled(saved))
NoMutation == pc \in {"returned", "raised"} => len = saved
\* initial condition for the inductive step: any state satisfying IndInv
IndInit == IndInv
=============================================================================
