#!/venv/bin/python
"""Run the repository's pinned test command with the hook guard OFF and compare with /root/.vp/BASELINE.json.
usage: tools/baseline.py [repo_dir]   (exit 0 iff every stable_pass test passed)"""
import json, os, subprocess, sys, tempfile, xml.etree.ElementTree as ET
repo = sys.argv[1] if len(sys.argv) > 1 else "/repo"
base = json.load(open("/root/.vp/BASELINE.json"))
env = dict(os.environ); env.pop("MAGPYLIB_VERIF", None); env["MPLBACKEND"] = "Agg"
with tempfile.TemporaryDirectory() as d:
    x = os.path.join(d, "j.xml")
    cmd = f"cd {repo} && /venv/bin/python -m pytest -ra -q -p no:cacheprovider --timeout=900 --continue-on-collection-errors --junitxml={x} -x -n 8" if os.environ.get("FAST") else \
          f"cd {repo} && /venv/bin/python -m pytest -ra -q -p no:cacheprovider --timeout=900 --continue-on-collection-errors --junitxml={x}"
    cmd = cmd.replace(" -x", "")
    r = subprocess.run(cmd, shell=True, env=env, capture_output=True, text=True)
    passed = set()
    for tc in ET.parse(x).getroot().iter("testcase"):
        if not any(c.tag in ("failure", "error", "skipped") for c in tc):
            passed.add(f"{tc.get('classname')}::{tc.get('name')}")
missing = [t for t in base["stable_pass"] if t not in passed]
print(f"stable_pass={len(base['stable_pass'])} passed_now={len(passed)} missing={len(missing)}")
for t in missing[:40]: print("  NOT PASSING:", t)
print(r.stdout[-600:])
sys.exit(1 if missing else 0)
