#!/venv/bin/python
"""Regenerate DESIGN.md section 12.6 (as-built table) from MANIFEST.json and evidence/*.json."""
import json, os
V = os.path.dirname(os.path.dirname(os.path.abspath(__file__)))
man = json.load(open(os.path.join(V, "MANIFEST.json")))
MODS = {"C01": "Integral", "C02": "Physics", "C03": "Laws", "C04": "FieldWrap", "C05": "FieldWrap, Batch, System", "C06": "FieldWrap, Batch", "C07": "Functional",
        "C08": "FieldCall (+FieldWrap)", "C09": "Path, PadArith, Pad_proof", "C10": "Path (part 4), System", "C11": "Tree, System", "C12": "Laws", "C13": "Laws", "C14": "Integral",
        "C15": "Physics", "C16": "Mesh", "C17": "Inputs", "C18": "Heap (+Tree)", "C19": "Show", "C20": "Style"}
rows = []
for c in man["checks"]:
    pid = c["property_id"]
    ev = {}
    p = os.path.join(V, "evidence", pid + ".json")
    if os.path.exists(p):
        ev = json.load(open(p))
    cov = ev.get("coverage", {})
    st = cov.get("states", cov.get("mc_states", ""))
    trn = cov.get("transitions", cov.get("mc_transitions", ""))
    val = cov.get("traces_validated_against_impl", cov.get("evaluations", ""))
    rows.append(f"| {pid} | {c['level_claimed']['category']} | {MODS.get(pid, '')} | {st} / {trn} | {val} | {ev.get('wall_s', '')} |")
txt = ("| id | level | spec modules | TLC states / transitions (quick) | steps or instances judged by TLC against the implementation | wall s (this machine, possibly loaded) |\n|---|---|---|---|---|---|\n"
       + "\n".join(rows) + "\n")
p = os.path.join(V, "DESIGN.md")
s = open(p).read()
i = s.index("### 12.6 What each check costs and covers")
j = s.find("\n### ", i + 10)
head = ("### 12.6 What each check costs and covers (quick tier; numbers from the evidence files of the last run)\n\n"
        "`vp check` runs all quick commands in about 16-30 minutes on a fresh copy. Thorough tiers take minutes to ~20 minutes each (C09 thorough: 1.6 M transitions model-checked, "
        "4.0 M steps replayed and validated in 21 min).\n\n")
s = s[:i] + head + txt + (s[j:] if j > 0 else "")
open(p, "w").write(s)
print("ok")
