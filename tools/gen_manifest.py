#!/venv/bin/python
"""Regenerate /verif/MANIFEST.json from the table below and validate it against the schema."""
import json
import os
import sys

V = os.path.dirname(os.path.dirname(os.path.abspath(__file__)))
props = [json.loads(l) for l in open(os.path.join(V, "properties.jsonl"))]

# id -> (category, technique, text, note, design_ref)
CLAIMED = {
    "C11": ("model_checking",
            "TLC fixpoint of spec/MC_Tree + replay of every transition into real objects + TLC trace validation (TV_Tree)",
            "TLC explores ALL histories of add/remove/parent=/children=/sources=/sensors=/collections=/+ over a fixed universe (3 collections, "
            "1-2 sources, 1 sensor, argument lists <= 2 incl. non-objects, duplicates, ancestors, owned objects) to the fixpoint and checks "
            "ForestInv, the *_all views and the frame condition in every state. Every transition of that state graph (~0.9M) is then executed on "
            "real magpylib objects put into the pre-state, and TLC judges each logged step (post-state, outcome, public views) with the same "
            "operators, including every raising call; seeded random histories over 12 objects are validated the same way.",
            "Trusted: TLC/SANY/Json module, the projection reading _parent/_children/_sources/_sensors/_collections and the public *_all views. "
            "Bounded universe for exhaustiveness; larger universes only sampled. copy() is covered under C18.",
            "DESIGN.md section 5 C11"),
}
NOT_YET = "check not built yet (work in progress)"
NA = {}

checks = []
for p in props:
    pid = p["id"]
    if pid in CLAIMED:
        cat, tech, text, note, ref = CLAIMED[pid]
        checks.append({
            "property_id": pid,
            "quick_cmd": f"./check {pid} --tier quick",
            "thorough_cmd": f"./check {pid} --tier thorough",
            "evidence_file": f"/verif/evidence/{pid}.json",
            "replay_cmd_template": f"./check {pid} --replay {{path}}",
            "engine": "lattice-tla",
            "level_claimed": {"category": cat, "text": text, "design_ref": ref},
            "level_note": note,
            "technique": tech,
        })
na = [{"property_id": p["id"], "reason": NA.get(p["id"], NOT_YET)} for p in props if p["id"] not in CLAIMED]

hooks_commits = []
hc = os.path.join(V, "hooks_commits.txt")
if os.path.exists(hc):
    hooks_commits = [l.split()[0] for l in open(hc) if l.strip()]

m = {
    "version": 1,
    "setup_cmd": "./setup.sh",
    "hooks": {
        "guard": "MAGPYLIB_VERIF",
        "enable": "checks export MAGPYLIB_VERIF=1 before importing magpylib from /repo (pure Python, editable install: no build step)",
        "baseline_off_cmd": "cd /repo && env -u MAGPYLIB_VERIF /venv/bin/python -m pytest -ra -q -p no:cacheprovider --timeout=900 --continue-on-collection-errors",
        "source_commits": hooks_commits,
        "add_only": True,
    },
    "engines": [{
        "name": "lattice-tla",
        "path": "/verif/spec + /verif/harness",
        "serves_properties": sorted(CLAIMED),
        "kind_free_text": "explicit TLA+ specification (spec/*.tla) model-checked with TLC; bound to the code by replaying every transition of the "
                          "bounded state graphs into real magpylib objects and by TLC trace validation of steps recorded from the real code",
    }],
    "checks": checks,
    "notes": "All checks: ./check <ID> [--tier quick|thorough] [--replay file]; exit 0 ok / 1 VIOLATION / 2 machinery failure. "
             "Known findings: /verif/known_findings.json. See DESIGN.md.",
    "not_applicable": na,
}
out = os.path.join(V, "MANIFEST.json")
json.dump(m, open(out, "w"), indent=1)
try:
    import jsonschema
    jsonschema.validate(m, json.load(open("/root/.vp/MANIFEST.schema.json")))
    print("MANIFEST valid;", len(checks), "checks,", len(na), "not claimed")
except ImportError:
    print("jsonschema missing; not validated")
