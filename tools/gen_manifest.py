#!/venv/bin/python
"""Regenerate /verif/MANIFEST.json from the table below and validate it against the schema."""
import json
import os
import sys

V = os.path.dirname(os.path.dirname(os.path.abspath(__file__)))
props = [json.loads(l) for l in open(os.path.join(V, "properties.jsonl"))]

# id -> (category, technique, text, note, design_ref)
CLAIMED = {
    "C11": ("model_checking",
            "TLC fixpoint of spec/MC_Tree + replay of every transition into real objects + TLC trace validation (TV_Tree)",
            "TLC explores ALL histories of add/remove/parent=/children=/sources=/sensors=/collections=/+ over a fixed universe (3 collections, "
            "1-2 sources, 1 sensor, argument lists <= 2 incl. non-objects, duplicates, ancestors, owned objects) to the fixpoint and checks "
            "ForestInv, the *_all views and the frame condition in every state. Every transition of that state graph (~0.9M) is then executed on "
            "real magpylib objects put into the pre-state, and TLC judges each logged step (post-state, outcome, public views) with the same "
            "operators, including every raising call; seeded random histories over 12 objects are validated the same way.",
            "Trusted: TLC/SANY/Json module, the projection reading _parent/_children/_sources/_sensors/_collections and the public *_all views. "
            "Bounded universe for exhaustiveness; larger universes only sampled. copy() is covered under C18.",
            "DESIGN.md section 5 C11"),
    "C09": ("model_checking",
            "TLAPS proof of the padding arithmetic + TLC check that the transcription of apply_move/apply_rotation equals the documented index semantics + replay of every transition into real objects + TLC trace validation (TV_Path)",
            "TLAPS proves (unbounded integers) that path_padding_param computes the smallest index interval covering old path and operation window. TLC checks on all "
            "bounded inputs (scalar / vector <= 3-4, start in -5..5 and auto, anchors none/0/single/per-step, depth-bounded sequences) that the operational "
            "transcription of class_BaseTransform.py equals the declarative semantics of the property, that both paths keep equal length >= 1 and that setters "
            "pad/slice. Every transition of that graph is executed on a real object (each rotation through the rotate_from_* forms, malformed calls must be "
            "rejected without effect), also under random rigid motions and length units, plus seeded random histories; TLC judges each step.",
            "Trusted: TLAPS/SMT, TLC, projection of _position/_orientation to the lattice (off-lattice results are logged as impossible values). Orientations restricted to the "
            "24 cube rotations for exact comparison (generic global frames via concretization).",
            "DESIGN.md section 5 C09"),
    "C10": ("model_checking",
            "TLC action properties RelPose/Frame on spec/MC_Compound + replay of transitions into real nested collections + TLC trace validation (TV_Path) incl. coll.getB() of internal sensors",
            "TLC checks for four tree shapes (up to 3 levels) and all depth-bounded sequences of move/rotate/position=/orientation=/reset_path on ANY object that every "
            "descendant's pose relative to the target is the pad/slice image of the old one, that non-descendants are untouched and that shared path length is kept. The "
            "transitions (all from initial states, seeded sample of deeper ones in quick, all in thorough) run on real nested collections with tagged sources and sensors; "
            "TLC judges own path, frame, relative poses and the invariance of the collection's field seen by its own sensors.",
            "Trusted: TLC, lattice projection. Tree shapes and palettes bounded; other trees sampled by random histories.",
            "DESIGN.md section 5 C10"),
    "C04": ("model_checking",
            "TLC-enumerated call scenarios (MC_FieldWrap) + exact comparison of full getB/getH output tensors of tagged sources against the declarative tensor in TLA+ (TV_FieldWrap)",
            "The result of getBH_level2 is defined in TLA+ as a declarative tensor (sensor pose per path index, pixel positions, sensor frame, handedness, pixel "
            "aggregation as exact integer reductions). TLC enumerates scenarios (14 sensor arrangements incl. static / translating / rotating / shorter / unrotated / "
            "first=last orientation / left-handed / mixed pixel shapes, 8 aggregators, flags) and checks definitional facts; every scenario is executed on real Sensor "
            "objects with integer-valued tagged CustomSources, the complete output tensor and its shape are compared EXACTLY by TLC; static sensors are also replaced by explicit global positions; "
            "half of the scenarios again under random rigid motions and length units. The implementation view (spec/FieldAlgo.tla: tiling, poso, groups, level1 rows, "
            "reduce loop, sensor rotation branches, aggregation, sumup) is checked by TLC to refine the declarative tensor, and the arrays the code holds at four hook points are compared "
            "with it step by step (clauses StageComputed..StageSumup). The grammar of the observers argument (spec/Observers.tla: position arrays written as list/tuple/ndarray, sensors, "
            "collections, lists of those, stacking rule, inadmissible forms) is model-checked and every written form is executed.",
            "Trusted: TLC, Json; index algebra is class independent so tagged CustomSources stand for all classes; relative poses restricted to the lattice.",
            "DESIGN.md section 5 C04"),
    "C05": ("model_checking",
            "same engine as C04 on source arrangements with nested collections, sumup and mixed orderings (structural superposition, exact)",
            "TLC checks on the definition that a (nested) collection entry equals the sum of its leaf sources; scenarios with collections of 1-5 leaves, nesting, sensors inside "
            "source collections (also followed by further entries), collections followed by bare sources, duplicates and sumup are executed on real objects and the full tensors "
            "compared exactly by TLC, together with the arrays at the code's hook points (FieldAlgo.tla, clause StageReduced = the in-place slice-sum loop). For the 16 real source "
            "classes of the Batch palette TLC judges linearity (integer combinations), homogeneity over 8 decades of the excitation and superposition (sumup / collection = sum of single-source calls).",
            "Trusted: TLC, Json; tagged sources for the index algebra; quantization to 1e-12 of the gross scale for the real-class laws.",
            "DESIGN.md section 5 C05"),
    "C06": ("model_checking",
            "same engine as C04: element independence and shape/squeeze rule checked by TLC on the definition and exactly on real output tensors",
            "TLC proves on every enumerated scenario that element (l,m,k,j) of the definition equals the element of the call with source l and sensor k alone (objects with shorter "
            "paths staying at their last pose), and checks the shape rule; real calls with all orderings, duplicates, path-length patterns and grouping of sources sharing a "
            "field function are compared exactly, including output shape with and without squeeze, the arrays at the code's hook points (FieldAlgo.tla) and every way of writing the "
            "observers argument (Observers.tla). For 16 real sources (MC_Batch: all orders up to length 2-3, duplicates, same-class sandwiches) TLC judges element independence against "
            "single calls, incl. the smallest case, surface observers, batch SIZE (one row of a 12-row call against row-by-row calls), finiteness and failure of the batch call.",
            "Trusted: TLC, Json; tagged sources for the index algebra; quantization to 1e-12 of the gross scale for the real-class laws.",
            "DESIGN.md section 5 C06"),
    "C08": ("model_checking",
            "TLC model of the call life cycle with a failure at every phase (MC_FieldCall) + Apalache inductive invariant for unbounded path lengths (spec/apalache/FieldCallInd.tla) + trace validation of hook-recorded phase traces of real calls through FieldCall!RunF + deep before/after digests",
            "TLC checks NoMutation on the life-cycle model (tile, groups, reduce, rotate, aggregate, un-tile; failure possible at every phase). Every behaviour of the model "
            "(path-length pattern x failing phase) is realised on real objects through public-API faults (missing dimension/excitation, bad pixel_agg/output, incompatible pixel "
            "shapes, CustomSource without or with misbehaving field function) or injected at the guarded hook points; TLC replays each recorded phase trace through the spec and "
            "requires unchanged path lengths at return/raise, identical deep digests of all objects and caller arrays, and identical behaviour when called again.",
            "Trusted: TLC, hooks commit in /repo (guarded by MAGPYLIB_VERIF), digest covers private attributes, style values, caller arrays as bytes.",
            "DESIGN.md section 5 C08"),
    "C07": ("model_checking",
            "TLC-enumerated ways of giving every functional-interface parameter (MC_Functional) + TLC validation of every real call against the documented tiling rule and row-wise against the object-oriented interface; call forms against the canonical tensor (TV_Functional)",
            "TLC enumerates for all 10 classes every combination of 'one parameter set / n sets' (n <= 3-4, deliberately colliding with vector and vertex-count lengths) for every "
            "parameter incl. observers, position, orientation, and checks the documented tiling rule on the model. Each of the ~12.5k combinations is executed through "
            "getB/H/J/M('Class', ...); TLC decides from the rule whether the call must succeed and with how many instances and compares every row with the object-oriented "
            "single-instance call; one configuration is also evaluated through top-level, source-method, sensor-method, three collection forms, sumup, squeeze and dataframe "
            "(incl. documented row order) and magpylib.core, each compared with the canonical tensor.",
            "Trusted: TLC, Json, quantization to 1e-12 of the gross scale (two limbs); tolerances 1e-8 (re-derived inputs) / 1e-12 (same computation). Parameter values are seeded random.",
            "DESIGN.md section 5 C07"),
    "C17": ("model_checking",
            "documented format table as a total decision function in TLA+ (Inputs.tla), checked total/deterministic by TLC over the value grammar; every (class, attribute, value descriptor) executed through constructor and setter and judged by TLC (TV_Inputs)",
            "TLC enumerates 13 classes x their public attributes x a grammar of value descriptors (scalars, arrays of rank 0-4 with small extents and entry classes, None, strings, "
            "rotations, callables, geometric predicates) and checks that the documented decision is total and deterministic and that a rejected assignment leaves the slot unchanged. "
            "Every triple is realised with concrete values through constructor and setter; TLC judges outcome class, unchanged-on-reject, stored shape/dtype, read-back equality, "
            "no aliasing with the caller's array, constructor/setter agreement and that a later getB raises no internal error.",
            "Trusted: TLC, the Python abstraction describe() of concrete values (cross-checked), the transcription of the docstrings into the table (rows where the docs are silent are tagged '-' and never alarm).",
            "DESIGN.md section 5 C17"),
    "C02": ("exploration",
            "exact half-lattice classification of observers against lattice bodies in TLA+ (Physics.tla, model-checked for its own consistency) + TLC judgement of quantized B, mu0*H, J, mu0*M observations of real calls (TV_PhysJ)",
            "TLC classifies every half-lattice point of the box around 25 lattice bodies (all magnet classes, incl. non-convex meshes and 7 cylinder segments) as inside / on a named "
            "boundary stratum / outside, exactly, and checks that geometry library on ~0.5M states (rotation invariance, partitions, mesh = cuboid). Real getB/H/J/M calls at every such point, "
            "3-24 lattice poses, random rigid motions and units, truthful in_out, several batch compositions and core functions are quantized to 1e-12 of the gross scale; TLC requires "
            "J = R*pol inside, 0 outside, either on the boundary, 0 for non-magnets, B = mu0 H + J and J = mu0 M, and the attribute law polarization = mu_0 * magnetization "
            "after EVERY assignment of a sequence whatever its outcome (ok / warned / raised; default filters and warnings as errors). Pairs of DIFFERENT meshes that agree in cheap "
            "summaries (facet count, leading facets, bounding box, volume) are evaluated jointly in both orders, every observer classified exactly against both bodies.",
            "Trusted: TLC, quantization, lattice bodies only (generic shapes through the concretization). Tolerance 1e-12 of gross for the consistency laws.",
            "DESIGN.md section 5 C02"),
    "C03": ("exploration",
            "TLC-checked premises (RigidMove of whole configurations incl. paths, exact relative placement) + TLC judgement of quantized observations before/after (TV_Laws): obs2 = g.obs1",
            "TLC explores behaviours of RigidMove over the 24 cube rotations and lattice translations on 11 source classes with paths and sensors and proves for each step that the relative "
            "placement is unchanged; each abstract configuration is instantiated under generic rigid motions and units and evaluated; TLC checks the signed-permutation law on quantized "
            "fields (1e-8 near, 1e-5 far) and invariance under a change of the generic gauge. The placement law (Freeze: a configuration with paths of unequal lengths equals, at path "
            "index m, the static configuration with every object at its pose min(m, own length)) decides the property's second sentence; fine-step images of rotation paths and of "
            "tilts within a group (1e-3..1e-5 degrees) are judged on the CHANGE of the field along the path.",
            "Trusted: TLC, quantization. Relative placements are lattice placements; genericity enters through the concretization only.",
            "DESIGN.md section 5 C03"),
    "C12": ("exploration",
            "same law engine: Rescale over the decades 1e-9..1e9 and ScaleExc over 1e-12..1e12 with TLC-decided exponent table and exact inside/outside classes (TV_Laws)",
            "14 base configurations (all classes, mesh variants) x observer classes (deep inside, near faces, edges, edge extensions, far) are instantiated at 7 (quick) / 19 (thorough) decades; "
            "TLC requires obs * lambda^e equal to the unit-scale observation (exponents 0 / -1 / -3), identical inside/outside classes and mesh status/orientation at every decade, and "
            "linearity in the excitation magnitude. Scenes of several magnets in one call (mesh+mesh of equal face count, mesh+cuboid) with observers inside exactly one body, every mesh "
            "constructor (from_triangles, from_mesh, from_ConvexHull, to_TriangleCollection) through all decades, half of the plan with lattice units of generic mantissa.",
            "Trusted: TLC, quantization; observers are never placed on a surface for value laws.",
            "DESIGN.md section 5 C12"),
    "C13": ("exploration",
            "same law engine: Split / Convert / Merge with premises decided exactly by TLC (disjoint interiors, equal volume by integer determinants, observers off all cuts) and Obs(whole) = sum Obs(parts) (TV_Laws)",
            "Cuboid splits and merges, Cuboid = mesh = convex hull = 5/6 tetrahedra = 12 triangle sheets (H), mesh conversions (to_TriangleCollection, from_triangles, from_mesh), Cylinder = full "
            "segment = r/phi/z segments (incl. crossing 180 degrees), Sphere outside = Dipole, Circle vs inscribed N-gons with the 1/N^2 rate law; behaviours of up to 4 steps from TLC. "
            "Observers also exactly on the extension lines of all 12 cuboid edges and of face planes (exact lattice gauge); representations carry a history (built un-normalised, used, "
            "then reorient_faces(), then compared: 'use, change, use = change, use').",
            "Trusted: TLC, two-limb quantization (1e-12) so sums over 14 parts are not swamped; tolerance 1e-8 near / 1e-5 far.",
            "DESIGN.md section 5 C13"),
    "C15": ("exploration",
            "special sets of every geometry enumerated on the half-lattice by Physics.tla (with the documented singular points marked) + TLC judgement of finiteness / shape / termination observations (TV_Finite)",
            "Every point of the box around 17 valid sources incl. zero-size and zero-excitation ones is evaluated exactly, at +-1/+-4 ulp and 1e-12..1e-6 sizes beside it, at units 1e-9..1e9, "
            "under lattice and generic motions and at 15 far directions up to 1e12 sizes, through the object interface and magpylib.core, under a CPU watchdog; TLC allows non-finite values "
            "only at the documented singular points and requires the documented shape, no exception and no timeout. All 53 named special sets must be reached (else machinery error). "
            "24 degenerate-but-accepted geometries of the functional interface / core (zero sides, zero diameter or height, r1 = r2, coinciding segment ends) are evaluated on their rim / "
            "line / point special sets in calls whose rows alternate with a regular body of the same class.",
            "Termination is observed under a watchdog, not proved. Finite-but-wrong values are not judged here.",
            "DESIGN.md section 5 C15"),
    "C16": ("model_checking",
            "exact mesh ground truth in TLA+ (open / components / orientation / signed volume / triangle-triangle intersection, Mesh.tla) model-checked over mesh transformations + every variant built as a real TriangularMesh and judged by TLC (TV_Mesh)",
            "TLC explores permutations, renumberings, flips, rewinds, deletions, duplications and interpenetrations of tetrahedron (all 9216 variants), box, prism, octahedron and L-shape and "
            "checks that the ground-truth predicates are invariant / change as they must. Every state is built as a real TriangularMesh at several units; TLC compares status_open/"
            "disconnected/selfintersecting, the reoriented faces (same face sets, all outward) and B/H at inside and outside observers of every variant against the base. A second family "
            "of flat bodies (integer stretches 1:10, 1:400, 1:10^4 along each axis, every face in turn as the orientation seed, one and two parts) is judged exactly on the destretched mesh.",
            "Trusted: TLC, exact integer predicates; self-intersection of non-box bodies limited to proper crossings.",
            "DESIGN.md section 5 C16"),
    "C18": ("model_checking",
            "abstract heap model of copy() (cells, references, aliasing; MC_Heap with refuted counter-designs) + alias graph and projections of real copies and 46 mutations per side judged by TLC (TV_Heap)",
            "TLC checks NoSharing, Independence, CopyParentless, CopySubtreeForest, OriginalUntouched and OverridesOnlyCopy on the heap model and must refute four counter-designs (shallow "
            "position/style/children, kept parent). For 13 classes x 4 tree shapes x parent yes/no x style none/pending/initialised x 20 keyword forms real copies are taken; the alias graph over "
            "all numpy buffers and containers, public projections, field equality and the effect of every later mutation on the other side are logged and judged by TLC. The keyword values "
            "of copy() live in a caller-owned argument node (ArgumentsUntouched, second copy with the same containers, None-valued keywords, style dict + underscore keyword of one branch); "
            "TLC refutes six counter-designs.",
            "Trusted: TLC; state outside instance __dict__ (closures of field functions, class attributes) is not seen by the alias graph.",
            "DESIGN.md section 5 C18"),
    "C19": ("exploration",
            "placement predictions on the exact lattice (Show.tla; scenarios enumerated by TLC) + TLC judgement of the vertices actually drawn by show() on plotly/matplotlib/generic layers and of before/after digests (TV_Show)",
            "702 class-level scenarios (class x pose path x frames selector x unit) plus 16 structural ones (collections, nesting, animation, subplots, style keywords) are shown with "
            "return_fig; per object and displayed path index TLC checks corner sets / vertex sequences / on-surface and extent predicates / anchors, the path line, the announced unit, and that "
            "objects, styles and defaults are unchanged.",
            "Decoration traces are not constrained; pyvista is not exercised (no display).",
            "DESIGN.md section 5 C19"),
    "C20": ("model_checking",
            "finite Style model checked to the fixpoint (precedence, last-wins, frame conditions, reset, copy independence) + the abstract behaviours instantiated on every real style leaf through 40 notations and judged by TLC (TV_Style)",
            "TLC explores all histories of SetObj/SetDefault/Reset/Copy/Show incl. invalid names/values over 3 objects, 2 family chains, 2 leaves. Each of the 272 object leaves and 146 default "
            "leaves is driven through every notation (constructor keyword/dict, attribute, update forms, style=, show keyword/dict, family/base defaults, reset, copy) with witness objects of the "
            "same and another family; TLC judges each step: value set, nothing else changed, resolved style = first set candidate, rejected input unchanged, reset restores. "
            "Collection.set_children_styles is the action SetKids of the machine (members, recursion, skipped leaves, caller's dictionary untouched, nothing changed when rejected).",
            "Trusted: TLC; one representative class per style class; family chains as documented.",
            "DESIGN.md section 5 C20"),
    "C14": ("exploration",
            "exact linking numbers and chart-adapted cells/loops with exact breakpoints from TLA+ (Integral.tla, model-checked) + flux/circulation MEASURED from getB/getH by Gauss-Legendre quadrature and judged by TLC against the integer right-hand sides (TV_Integral)",
            "TLC enumerates closed cells and loops in charts adapted to each body (Cartesian, cylindrical, spherical, affine) in free space, inside a magnet, cutting its boundary "
            "and enclosing it, sizes 1e-2..1e2, with the exact breakpoints where faces/edges cross material surfaces, and checks the geometry library (linking number invariant under "
            "joint rigid motion, antisymmetric, additive, zero when separated). The harness integrates the returned B over faces and H along edges (order 32 vs 16 error estimate; "
            "instances that cannot be measured to 1e-8 are discarded, never rejected); TLC requires flux 0 and circulation = sum I*Lk within 1e-7 of the gross scale. "
            "Also enumerated: tiny closed cells straddling the interior of a face of a body 1e3-3e4 lattice units large (offsets 2e-4..3e-5 of the facet size) and cells of width 1 hugging "
            "the symmetry axes of Circle, Cylinder, CylinderSegment, Dipole, Sphere (1e-3, 1e-4 of the radius), where surface masks and on-axis special cases live.",
            "Trusted: TLC, the quadrature (self-estimated error), quantization. Cells and loops are enumerated families, not all closed surfaces.",
            "DESIGN.md section 5 C14"),
    "C01": ("exploration",
            "INDIRECT: the C14 engine on a branch-coverage family of cells and loops straddling every value-dependent switch of every closed-form expression + far-field dipole limit and exact closed forms (Dipole, Sphere) compared in TLA+ with integer arithmetic",
            "TLA+ cannot state or evaluate the Biot-Savart / Coulomb integrals, and a numerical integrator as ground truth would be another technique. What is decided: by the uniqueness "
            "theorem a field with zero flux, circulation equal to the threaded current, B = mu0 H + J with the known J (C02) and the right dipole limit at infinity IS the field of the "
            "integrals. Cells and loops straddle each documented switch surface of each formula (listed with file:line in Integral!Switch) inside and outside the body at relative sizes "
            "1e-3..1e3; a wrong sign/factor/term in one branch shows as a flux or circulation residual. The far-field law (150-5000 sizes) and the closed forms that are first principles "
            "(Dipole, Sphere inside/outside) are checked as integer identities in TLC. At points exactly ON measure-zero special sets (axes incl. the r1 = 0 segment axis beyond the faces, "
            "centre lines, switch planes, segment extension lines), which no integral can see, the local form of the laws is checked: the lattice mean-value law "
            "sum_6 f(c +- h e_k) - 6 f(c) = O(h^4), stated and judged in TLA+ on seven logged field vectors. Pointwise equality is implied only to the extent these sampled laws pin the field.",
            "Indirect claim (see DESIGN.md section 5 C01 and section 8); a switch not listed in Integral!Switch is not covered; unmeasurable instances are not verdicts.",
            "DESIGN.md section 5 C01"),
}
NOT_YET = "check not built yet (work in progress)"
NA = {}

checks = []
for p in props:
    pid = p["id"]
    if pid in CLAIMED:
        cat, tech, text, note, ref = CLAIMED[pid]
        checks.append({
            "property_id": pid,
            "quick_cmd": f"./check {pid} --tier quick",
            "thorough_cmd": f"./check {pid} --tier thorough",
            "evidence_file": f"/verif/evidence/{pid}.json",
            "replay_cmd_template": f"./check {pid} --replay {{path}}",
            "engine": "lattice-tla",
            "level_claimed": {"category": cat, "text": text, "design_ref": ref},
            "level_note": note,
            "technique": tech,
        })
na = [{"property_id": p["id"], "reason": NA.get(p["id"], NOT_YET)} for p in props if p["id"] not in CLAIMED]

hooks_commits = []
hc = os.path.join(V, "hooks_commits.txt")
if os.path.exists(hc):
    hooks_commits = [l.split()[0] for l in open(hc) if l.strip()]

m = {
    "version": 1,
    "setup_cmd": "./setup.sh",
    "hooks": {
        "guard": "MAGPYLIB_VERIF",
        "enable": "checks export MAGPYLIB_VERIF=1 before importing magpylib from /repo (pure Python, editable install: no build step)",
        "baseline_off_cmd": "cd /repo && env -u MAGPYLIB_VERIF /venv/bin/python -m pytest -ra -q -p no:cacheprovider --timeout=900 --continue-on-collection-errors",
        "source_commits": hooks_commits,
        "add_only": True,
    },
    "engines": [{
        "name": "lattice-tla",
        "path": "/verif/spec + /verif/harness",
        "serves_properties": sorted(CLAIMED),
        "kind_free_text": "explicit TLA+ specification (spec/*.tla) model-checked with TLC; bound to the code by replaying every transition of the "
                          "bounded state graphs into real magpylib objects and by TLC trace validation of steps recorded from the real code",
    }],
    "checks": checks,
    "notes": "All checks: ./check <ID> [--tier quick|thorough] [--replay file]; exit 0 ok / 1 VIOLATION / 2 machinery failure. "
             "Known findings: /verif/known_findings.json. See DESIGN.md.",
    "not_applicable": na,
}
out = os.path.join(V, "MANIFEST.json")
json.dump(m, open(out, "w"), indent=1)
try:
    import jsonschema
    jsonschema.validate(m, json.load(open("/root/.vp/MANIFEST.schema.json")))
    print("MANIFEST valid;", len(checks), "checks,", len(na), "not claimed")
except ImportError:
    print("jsonschema missing; not validated")
