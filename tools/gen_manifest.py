#!/venv/bin/python
"""Regenerate /verif/MANIFEST.json from the table below and validate it against the schema."""
import json
import os
import sys

V = os.path.dirname(os.path.dirname(os.path.abspath(__file__)))
props = [json.loads(l) for l in open(os.path.join(V, "properties.jsonl"))]

# id -> (category, technique, text, note, design_ref)
CLAIMED = {
    "C11": ("model_checking",
            "TLC fixpoint of spec/MC_Tree + replay of every transition into real objects + TLC trace validation (TV_Tree)",
            "TLC explores ALL histories of add/remove/parent=/children=/sources=/sensors=/collections=/+ over a fixed universe (3 collections, "
            "1-2 sources, 1 sensor, argument lists <= 2 incl. non-objects, duplicates, ancestors, owned objects) to the fixpoint and checks "
            "ForestInv, the *_all views and the frame condition in every state. Every transition of that state graph (~0.9M) is then executed on "
            "real magpylib objects put into the pre-state, and TLC judges each logged step (post-state, outcome, public views) with the same "
            "operators, including every raising call; seeded random histories over 12 objects are validated the same way.",
            "Trusted: TLC/SANY/Json module, the projection reading _parent/_children/_sources/_sensors/_collections and the public *_all views. "
            "Bounded universe for exhaustiveness; larger universes only sampled. copy() is covered under C18.",
            "DESIGN.md section 5 C11"),
    "C09": ("model_checking",
            "TLAPS proof of the padding arithmetic + TLC check that the transcription of apply_move/apply_rotation equals the documented index semantics + replay of every transition into real objects + TLC trace validation (TV_Path)",
            "TLAPS proves (unbounded integers) that path_padding_param computes the smallest index interval covering old path and operation window. TLC checks on all "
            "bounded inputs (scalar / vector <= 3-4, start in -5..5 and auto, anchors none/0/single/per-step, depth-bounded sequences) that the operational "
            "transcription of class_BaseTransform.py equals the declarative semantics of the property, that both paths keep equal length >= 1 and that setters "
            "pad/slice. Every transition of that graph is executed on a real object (each rotation through the rotate_from_* forms, malformed calls must be "
            "rejected without effect), also under random rigid motions and length units, plus seeded random histories; TLC judges each step.",
            "Trusted: TLAPS/SMT, TLC, projection of _position/_orientation to the lattice (off-lattice results are logged as impossible values). Orientations restricted to the "
            "24 cube rotations for exact comparison (generic global frames via concretization).",
            "DESIGN.md section 5 C09"),
    "C10": ("model_checking",
            "TLC action properties RelPose/Frame on spec/MC_Compound + replay of transitions into real nested collections + TLC trace validation (TV_Path) incl. coll.getB() of internal sensors",
            "TLC checks for four tree shapes (up to 3 levels) and all depth-bounded sequences of move/rotate/position=/orientation=/reset_path on ANY object that every "
            "descendant's pose relative to the target is the pad/slice image of the old one, that non-descendants are untouched and that shared path length is kept. The "
            "transitions (all from initial states, seeded sample of deeper ones in quick, all in thorough) run on real nested collections with tagged sources and sensors; "
            "TLC judges own path, frame, relative poses and the invariance of the collection's field seen by its own sensors.",
            "Trusted: TLC, lattice projection. Tree shapes and palettes bounded; other trees sampled by random histories.",
            "DESIGN.md section 5 C10"),
    "C04": ("model_checking",
            "TLC-enumerated call scenarios (MC_FieldWrap) + exact comparison of full getB/getH output tensors of tagged sources against the declarative tensor in TLA+ (TV_FieldWrap)",
            "The result of getBH_level2 is defined in TLA+ as a declarative tensor (sensor pose per path index, pixel positions, sensor frame, handedness, pixel "
            "aggregation as exact integer reductions). TLC enumerates scenarios (14 sensor arrangements incl. static / translating / rotating / shorter / unrotated / "
            "first=last orientation / left-handed / mixed pixel shapes, 8 aggregators, flags) and checks definitional facts; every scenario is executed on real Sensor "
            "objects with integer-valued tagged CustomSources, the complete output tensor and its shape are compared EXACTLY by TLC; static sensors are also replaced by explicit global positions; "
            "half of the scenarios again under random rigid motions and length units.",
            "Trusted: TLC, Json; index algebra is class independent so tagged CustomSources stand for all classes; relative poses restricted to the lattice.",
            "DESIGN.md section 5 C04"),
    "C05": ("model_checking",
            "same engine as C04 on source arrangements with nested collections, sumup and mixed orderings (structural superposition, exact)",
            "TLC checks on the definition that a (nested) collection entry equals the sum of its leaf sources; scenarios with collections of 1-5 leaves, nesting, sensors inside "
            "source collections, collections followed by bare sources, duplicates and sumup are executed on real objects and the full tensors compared exactly by TLC. "
            "Linearity in the excitation of real source classes is covered by the law-instance checks (C12 ScaleExc, C13).",
            "Trusted: TLC, Json; tagged sources. Linearity of each closed-form expression in its excitation is not decided here.",
            "DESIGN.md section 5 C05"),
    "C06": ("model_checking",
            "same engine as C04: element independence and shape/squeeze rule checked by TLC on the definition and exactly on real output tensors",
            "TLC proves on every enumerated scenario that element (l,m,k,j) of the definition equals the element of the call with source l and sensor k alone (objects with shorter "
            "paths staying at their last pose), and checks the shape rule; real calls with all orderings, duplicates, path-length patterns and grouping of sources sharing a "
            "field function are compared exactly, including output shape with and without squeeze.",
            "Trusted: TLC, Json; tagged sources (batch-composition effects inside the closed-form core functions of real classes are covered by C02/C13 law instances).",
            "DESIGN.md section 5 C06"),
    "C08": ("model_checking",
            "TLC model of the call life cycle with a failure at every phase (MC_FieldCall) + trace validation of hook-recorded phase traces of real calls through FieldCall!RunF + deep before/after digests",
            "TLC checks NoMutation on the life-cycle model (tile, groups, reduce, rotate, aggregate, un-tile; failure possible at every phase). Every behaviour of the model "
            "(path-length pattern x failing phase) is realised on real objects through public-API faults (missing dimension/excitation, bad pixel_agg/output, incompatible pixel "
            "shapes, CustomSource without or with misbehaving field function) or injected at the guarded hook points; TLC replays each recorded phase trace through the spec and "
            "requires unchanged path lengths at return/raise, identical deep digests of all objects and caller arrays, and identical behaviour when called again.",
            "Trusted: TLC, hooks commit in /repo (guarded by MAGPYLIB_VERIF), digest covers private attributes, style values, caller arrays as bytes.",
            "DESIGN.md section 5 C08"),
    "C07": ("model_checking",
            "TLC-enumerated ways of giving every functional-interface parameter (MC_Functional) + TLC validation of every real call against the documented tiling rule and row-wise against the object-oriented interface; call forms against the canonical tensor (TV_Functional)",
            "TLC enumerates for all 10 classes every combination of 'one parameter set / n sets' (n <= 3-4, deliberately colliding with vector and vertex-count lengths) for every "
            "parameter incl. observers, position, orientation, and checks the documented tiling rule on the model. Each of the ~12.5k combinations is executed through "
            "getB/H/J/M('Class', ...); TLC decides from the rule whether the call must succeed and with how many instances and compares every row with the object-oriented "
            "single-instance call; one configuration is also evaluated through top-level, source-method, sensor-method, three collection forms, sumup, squeeze and dataframe "
            "(incl. documented row order) and magpylib.core, each compared with the canonical tensor.",
            "Trusted: TLC, Json, quantization to 1e-12 of the gross scale (two limbs); tolerances 1e-8 (re-derived inputs) / 1e-12 (same computation). Parameter values are seeded random.",
            "DESIGN.md section 5 C07"),
    "C17": ("model_checking",
            "documented format table as a total decision function in TLA+ (Inputs.tla), checked total/deterministic by TLC over the value grammar; every (class, attribute, value descriptor) executed through constructor and setter and judged by TLC (TV_Inputs)",
            "TLC enumerates 13 classes x their public attributes x a grammar of value descriptors (scalars, arrays of rank 0-4 with small extents and entry classes, None, strings, "
            "rotations, callables, geometric predicates) and checks that the documented decision is total and deterministic and that a rejected assignment leaves the slot unchanged. "
            "Every triple is realised with concrete values through constructor and setter; TLC judges outcome class, unchanged-on-reject, stored shape/dtype, read-back equality, "
            "no aliasing with the caller's array, constructor/setter agreement and that a later getB raises no internal error.",
            "Trusted: TLC, the Python abstraction describe() of concrete values (cross-checked), the transcription of the docstrings into the table (rows where the docs are silent are tagged '-' and never alarm).",
            "DESIGN.md section 5 C17"),
}
NOT_YET = "check not built yet (work in progress)"
NA = {}

checks = []
for p in props:
    pid = p["id"]
    if pid in CLAIMED:
        cat, tech, text, note, ref = CLAIMED[pid]
        checks.append({
            "property_id": pid,
            "quick_cmd": f"./check {pid} --tier quick",
            "thorough_cmd": f"./check {pid} --tier thorough",
            "evidence_file": f"/verif/evidence/{pid}.json",
            "replay_cmd_template": f"./check {pid} --replay {{path}}",
            "engine": "lattice-tla",
            "level_claimed": {"category": cat, "text": text, "design_ref": ref},
            "level_note": note,
            "technique": tech,
        })
na = [{"property_id": p["id"], "reason": NA.get(p["id"], NOT_YET)} for p in props if p["id"] not in CLAIMED]

hooks_commits = []
hc = os.path.join(V, "hooks_commits.txt")
if os.path.exists(hc):
    hooks_commits = [l.split()[0] for l in open(hc) if l.strip()]

m = {
    "version": 1,
    "setup_cmd": "./setup.sh",
    "hooks": {
        "guard": "MAGPYLIB_VERIF",
        "enable": "checks export MAGPYLIB_VERIF=1 before importing magpylib from /repo (pure Python, editable install: no build step)",
        "baseline_off_cmd": "cd /repo && env -u MAGPYLIB_VERIF /venv/bin/python -m pytest -ra -q -p no:cacheprovider --timeout=900 --continue-on-collection-errors",
        "source_commits": hooks_commits,
        "add_only": True,
    },
    "engines": [{
        "name": "lattice-tla",
        "path": "/verif/spec + /verif/harness",
        "serves_properties": sorted(CLAIMED),
        "kind_free_text": "explicit TLA+ specification (spec/*.tla) model-checked with TLC; bound to the code by replaying every transition of the "
                          "bounded state graphs into real magpylib objects and by TLC trace validation of steps recorded from the real code",
    }],
    "checks": checks,
    "notes": "All checks: ./check <ID> [--tier quick|thorough] [--replay file]; exit 0 ok / 1 VIOLATION / 2 machinery failure. "
             "Known findings: /verif/known_findings.json. See DESIGN.md.",
    "not_applicable": na,
}
out = os.path.join(V, "MANIFEST.json")
json.dump(m, open(out, "w"), indent=1)
try:
    import jsonschema
    jsonschema.validate(m, json.load(open("/root/.vp/MANIFEST.schema.json")))
    print("MANIFEST valid;", len(checks), "checks,", len(na), "not claimed")
except ImportError:
    print("jsonschema missing; not validated")
