#!/venv/bin/python
"""Regenerate the detection matrix (DESIGN.md section 12.5) from seeded/*/meta.json."""
import json, os, re
V = os.path.dirname(os.path.dirname(os.path.abspath(__file__)))
rows = []
for sid in sorted(os.listdir(os.path.join(V, "seeded"))):
    m = json.load(open(os.path.join(V, "seeded", sid, "meta.json")))
    det = "; ".join(f"**{k}**: {v}" for k, v in m["detected_by"].items())
    lines = [l.strip() for l in m["needs_to_manifest"].split("\n")]
    lines = [l for l in lines if len(l) > 25 and not re.match(r"^C\d\d\b.{0,3}$", l)] or [""]
    first = " ".join(lines[:2])[:230].replace("|", "/")
    rows.append(f"| `{sid}` | {m['property']} | {first} | {det.replace('|', '/')} |")
n = len(rows)
missed = sum(1 for r in rows if "MISSED" in r)
cross = sum(1 for r in rows if "not detected by the check of this property" in r)
txt = (f"{n} seeded changes, each written by a fresh sub-agent that saw only the property text and a scratch worktree, each confirmed "
       f"(`tools/seeded.py confirm`: the patch applies, its demonstration fails with and passes without the change, the repository's 1096 stable tests still pass). "
       f"{n - missed - cross} were detected by the owning check as it stood; {missed} were first missed and led to the strengthening named in the last column; "
       f"{cross} (round 6) are not detected by the check of the property they were written for but by the check of the property whose statement they contradict "
       f"(named in the last column, reasons in 12.12) or, where the column says so, by none. "
       f"`tools/seeded_all.py` re-runs every change against the checks named in its meta.json on scratch copies of the current tree - /repo is never modified; the "
       f"result of the last complete run over the first five rounds, 136 of 136 detected, is `seeded_last_run.json`; the round-6 runs are recorded per change in meta.json.\n\n"
       "| seeded change | property | what it is (first line of the author's note) | detected by |\n|---|---|---|---|\n" + "\n".join(rows) + "\n")
p = os.path.join(V, "DESIGN.md")
s = open(p).read()
i = s.index("### 12.5 Detection matrix of seeded changes")
j = s.find("\n### ", i + 10)
s = s[:i] + "### 12.5 Detection matrix of seeded changes\n\n" + txt + (s[j:] if j > 0 else "")
open(p, "w").write(s)
print(n, "seeds,", missed, "initially missed")
