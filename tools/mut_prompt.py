#!/venv/bin/python
"""print the prompt for a seeded-change sub-agent: tools/mut_prompt.py <worktree id> <n per property> C02 C03 ..."""
import json, os, sys
V = os.path.dirname(os.path.dirname(os.path.abspath(__file__)))
props = {json.loads(l)["id"]: json.loads(l) for l in open(os.path.join(V, "properties.jsonl"))}
wid, n, ids = sys.argv[1], sys.argv[2], sys.argv[3:]
t = open(os.path.join(V, "notes", "mutation_prompt.txt")).read()
head, rest = t.split("THE PROPERTY", 1)
_, tail = rest.split("YOUR TASK:", 1)
out = head.replace("@ID@", wid)
out += "THE PROPERTIES (produce changes for EACH of them):\n"
for i in ids:
    p = props[i]
    out += f"\n{i} — {p['title']}:\n{p['statement']}\nIt must hold: {p['quantifier']['text']}\n"
out += "\nYOUR TASK (for each property above):" + tail.replace("@ID@", wid).replace("@N@", n)
out += ("\nNumber the out/ directories consecutively over all properties and put the property id in the first line of notes.txt. "
        "Look for mechanisms that are NOT the first thing one would think of: interactions between two features, state left behind by an earlier call, "
        "a boundary value of a documented argument, a rarely used interface or option, behaviour that differs between one and several objects.")
print(out)
