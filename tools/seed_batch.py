#!/venv/bin/python
"""confirm + run a list of seeded changes: tools/seed_batch.py <pid> <srcdir> <check,check> ; writes .work/seed_results/<pid>.json"""
import json, os, subprocess, sys
V = os.path.dirname(os.path.dirname(os.path.abspath(__file__)))
sys.path.insert(0, os.path.join(V, "tools"))
import seeded
pid, src, checks = sys.argv[1], sys.argv[2], sys.argv[3].split(",")
out = {}
for k in sorted(os.listdir(src)):
    sd = os.path.join(src, k)
    if not os.path.exists(os.path.join(sd, "patch.diff")):
        continue
    import io, contextlib
    buf = io.StringIO()
    with contextlib.redirect_stdout(buf):
        ok = seeded.confirm(sd)
        res = seeded.run_checks(sd, checks)
    out[k] = {"confirmed": ok, "checks": res}
    print(pid, k, "confirmed", ok, {c: r["exit"] for c, r in res.items()}, flush=True)
os.makedirs(os.path.join(V, ".work", "seed_results"), exist_ok=True)
json.dump(out, open(os.path.join(V, ".work", "seed_results", pid + ".json"), "w"), indent=1)
