#!/venv/bin/python
"""confirm + run the seeded changes of one sub-agent whose out/<k>/notes.txt names the property in its first line:
tools/seed_round.py <tag> <srcdir> [k ...] ; writes .work/seed_results/<tag>.json (one entry per k: property, confirmed, check result)"""
import contextlib
import io
import json
import os
import re
import sys

V = os.path.dirname(os.path.dirname(os.path.abspath(__file__)))
sys.path.insert(0, os.path.join(V, "tools"))
import seeded

tag, src, only = sys.argv[1], sys.argv[2], sys.argv[3:]
res_f = os.path.join(V, ".work", "seed_results", tag + ".json")
os.makedirs(os.path.dirname(res_f), exist_ok=True)
out = json.load(open(res_f)) if os.path.exists(res_f) else {}
for k in sorted(os.listdir(src)):
    sd = os.path.join(src, k)
    if not os.path.exists(os.path.join(sd, "patch.diff")) or (only and k not in only):
        continue
    notes = open(os.path.join(sd, "notes.txt")).read() if os.path.exists(os.path.join(sd, "notes.txt")) else ""
    m = re.search(r"\bC(\d\d)\b", notes)
    if not m:
        print(tag, k, "no property id in notes.txt")
        continue
    prop = "C" + m.group(1)
    buf = io.StringIO()
    with contextlib.redirect_stdout(buf):
        ok = seeded.confirm(sd) if not out.get(k, {}).get("confirmed") else True
        res = seeded.run_checks(sd, [prop]) if ok else {}
    out[k] = {"property": prop, "confirmed": ok, "checks": res, "log": buf.getvalue()[-1500:]}
    print(tag, k, prop, "confirmed", ok, {c: r["exit"] for c, r in res.items()}, flush=True)
    json.dump(out, open(res_f, "w"), indent=1)
