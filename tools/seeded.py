#!/venv/bin/python
"""Evaluate seeded changes against the checks WITHOUT touching /repo: a scratch copy of the working tree gets the patch,
the demonstration and the checks run against the copy (VERIF_REPO), the copy is removed afterwards.

  tools/seeded.py confirm <dir>            # patch applies, demo fails with / passes without, repo tests still pass
  tools/seeded.py run <dir> C11 [C09 ...]  # run the given checks against the patched copy; prints exit status per check
  tools/seeded.py all                      # every /verif/seeded/<id>/ against the checks named in its meta.json
"""
import json
import os
import shutil
import subprocess
import sys
import tempfile

V = os.path.dirname(os.path.dirname(os.path.abspath(__file__)))


def scratch(patch=None):
    d = tempfile.mkdtemp(prefix="seed-", dir="/tmp")
    for sub in ("magpylib", "tests"):
        shutil.copytree(os.path.join("/repo", sub), os.path.join(d, sub))
    for f in ("pyproject.toml", "tox.ini", "README.md"):
        if os.path.exists(os.path.join("/repo", f)):
            shutil.copy(os.path.join("/repo", f), d)
    if patch:
        r = subprocess.run(["patch", "-p1", "-s", "-i", os.path.abspath(patch)], cwd=d, capture_output=True, text=True)
        if r.returncode != 0:
            shutil.rmtree(d, ignore_errors=True)
            raise SystemExit(f"patch does not apply: {r.stdout}{r.stderr}")
    return d


def run_demo(d, demo):
    env = dict(os.environ, PYTHONPATH=d, MPLBACKEND="Agg")
    env.pop("MAGPYLIB_VERIF", None)
    r = subprocess.run(["/venv/bin/python", os.path.abspath(demo)], cwd=d, env=env, capture_output=True, text=True, timeout=600)
    return r.returncode, (r.stdout + r.stderr)[-600:]


def run_tests(d):
    env = dict(os.environ, MPLBACKEND="Agg")
    env.pop("MAGPYLIB_VERIF", None)
    r = subprocess.run(["/venv/bin/python", os.path.join(V, "tools", "baseline.py"), d], env=dict(env, FAST="1"), capture_output=True, text=True)
    return r.returncode, r.stdout.splitlines()[0] if r.stdout else r.stderr[-300:]


def confirm(sd):
    patch, demo = os.path.join(sd, "patch.diff"), os.path.join(sd, "demo.py")
    clean = scratch()
    try:
        rc0, out0 = run_demo(clean, demo)
    finally:
        shutil.rmtree(clean, ignore_errors=True)
    d = scratch(patch)
    try:
        rc1, out1 = run_demo(d, demo)
        trc, tsum = run_tests(d)
    finally:
        shutil.rmtree(d, ignore_errors=True)
    ok = rc0 == 0 and rc1 != 0 and trc == 0
    print(json.dumps({"demo_unchanged_rc": rc0, "demo_changed_rc": rc1, "tests": tsum, "confirmed": ok, "demo_changed_out": out1[-300:]}, indent=1))
    return ok


def run_checks(sd, checks, tier="quick"):
    d = scratch(os.path.join(sd, "patch.diff"))
    res = {}
    try:
        for c in checks:
            env = dict(os.environ, VERIF_REPO=d, VERIF_TIER=tier, VERIF_RUN_ID=os.path.basename(d))
            r = subprocess.run([os.path.join(V, "check"), c, "--tier", tier], cwd=V, env=env, capture_output=True, text=True)
            lines = [l for l in r.stdout.splitlines() if l.startswith(("VIOLATION", "KNOWN-FINDING", "NONCONFORMANCE")) or l.startswith(c + ":")]
            res[c] = {"exit": r.returncode, "lines": [l[:260] for l in lines[:6]], "err": r.stderr[-300:] if r.returncode == 2 else ""}
            print(c, "exit", r.returncode, *[("\n   " + l[:200]) for l in lines[:4]])
    finally:
        shutil.rmtree(d, ignore_errors=True)
        shutil.rmtree(os.path.join(V, ".work", "scratch", os.path.basename(d)), ignore_errors=True)      # traces of the scratch run
    # the evidence files were rewritten against the copy: restore by re-running is the caller's business; mark them
    return res


if __name__ == "__main__":
    cmd = sys.argv[1]
    if cmd == "confirm":
        sys.exit(0 if confirm(sys.argv[2]) else 1)
    elif cmd == "run":
        run_checks(sys.argv[2], sys.argv[3:])
    elif cmd == "all":
        base = os.path.join(V, "seeded")
        for sid in sorted(os.listdir(base)):
            sd = os.path.join(base, sid)
            meta = json.load(open(os.path.join(sd, "meta.json")))
            print("==", sid, meta.get("property"))
            run_checks(sd, meta.get("checks", [meta.get("property")]))


def import_seed(src, sid, prop, checks, detected):
    """copy a confirmed seeded change into /verif/seeded/<sid>/ with meta.json"""
    dst = os.path.join(V, "seeded", sid)
    os.makedirs(dst, exist_ok=True)
    for f in ("patch.diff", "demo.py"):
        shutil.copy(os.path.join(src, f), dst)
    notes = open(os.path.join(src, "notes.txt")).read() if os.path.exists(os.path.join(src, "notes.txt")) else ""
    meta = {"id": sid, "property": prop, "checks": checks, "origin": "fresh sub-agent given only the property text and a scratch worktree",
            "needs_to_manifest": notes.strip(), "confirmed": "tools/seeded.py confirm: patch applies to HEAD, demo exits 0 without / non-zero with the change, "
            "repository baseline (1096 stable tests) still passes with the change",
            "ran": [f"tools/seeded.py run seeded/{sid} " + " ".join(checks)], "detected_by": detected}
    json.dump(meta, open(os.path.join(dst, "meta.json"), "w"), indent=1)
    print("imported", dst)


if __name__ == "__main__" and sys.argv[1] == "import":
    # tools/seeded.py import <src> <sid> <prop> <check,check> <detected json>
    import_seed(sys.argv[2], sys.argv[3], sys.argv[4], sys.argv[5].split(","), json.loads(sys.argv[6]))
