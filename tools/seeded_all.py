#!/venv/bin/python
"""Re-run every seeded change against the check of its own property on scratch copies of the CURRENT tree (never /repo itself).
  tools/seeded_all.py [streams]      -> .work/seeded_all.json ; exit 1 if some change is no longer detected (or no longer applies)"""
import concurrent.futures as cf
import json, os, subprocess, sys
V = os.path.dirname(os.path.dirname(os.path.abspath(__file__)))
sys.path.insert(0, os.path.join(V, "tools"))
import seeded  # noqa: E402

OWN = {"c01-r4-2-magnetization-warning-before-polarization-refresh": "C02"}


def one(sid):
    sd = os.path.join(V, "seeded", sid)
    meta = json.load(open(os.path.join(sd, "meta.json")))
    chk = OWN.get(sid, meta["property"])
    try:
        d = seeded.scratch(os.path.join(sd, "patch.diff"))
    except SystemExit as e:
        return sid, chk, "no-apply", str(e)[:200]
    try:
        env = dict(os.environ, VERIF_REPO=d, VERIF_TIER="quick", VERIF_RUN_ID=os.path.basename(d))
        r = subprocess.run([os.path.join(V, "check"), chk, "--tier", "quick"], cwd=V, env=env, capture_output=True, text=True)
        line = next((l for l in r.stdout.splitlines() if l.startswith("VIOLATION")), "")
        return sid, chk, r.returncode, line[:200] if r.returncode == 1 else (r.stderr[-300:] if r.returncode == 2 else "")
    finally:
        import shutil
        shutil.rmtree(d, ignore_errors=True)
        shutil.rmtree(os.path.join(V, ".work", "scratch", os.path.basename(d)), ignore_errors=True)


if __name__ == "__main__":
    streams = int(sys.argv[1]) if len(sys.argv) > 1 else 3
    sids = sorted(os.listdir(os.path.join(V, "seeded")))
    out = {}
    with cf.ThreadPoolExecutor(streams) as ex:
        for sid, chk, rc, info in ex.map(one, sids):
            out[sid] = {"check": chk, "exit": rc, "info": info}
            print(sid, chk, rc, flush=True)
            json.dump(out, open(os.path.join(V, ".work", "seeded_all.json"), "w"), indent=1)
    bad = {k: v for k, v in out.items() if v["exit"] != 1}
    print(len(out), "seeded changes;", len(bad), "not detected:", list(bad))
    sys.exit(1 if bad else 0)
